import AggkitModel.Properties.C02
import AggkitModel.Generated.CertFacts
import AggkitModel.Generated.InitialStatus
import AggkitModel.Generated.FlowBase
import AggkitModel.Generated.NextHeight
/-
C13 — certificate bookkeeping survives crashes and a lost database.
Property theorems only. The operations quantified over include `crash` (between two loop iterations), a tick whose
process dies between the submission and the local write (`epoch true` / `status true`), `losedb` and `restart`, at any
point of any history, for every Agglayer-side state those histories can produce.
Atomicity of the save transaction itself is a property of SQLite; it is observed by the harness monitor
(`savefault` ops) and is part of the trusted base, not of these theorems.
-/
namespace Aggkit.Aggsender
open Aggkit.CertRange

/-- a reachable state: any admissible history from an empty node and an empty Agglayer -/
def Reachable (size : Params → Nat) (s : Sys) : Prop :=
  ∃ cfg ops, opsOK size { cfg := cfg } ops = true ∧ s = run size { cfg := cfg } ops

theorem reachable_inv (size : Params → Nat) (s : Sys) (h : Reachable size s) : Inv s := by
  obtain ⟨cfg, ops, ho, e⟩ := h
  rw [e]; exact run_inv size ops _ (init_inv cfg) ho

/-- **after any history (crashes, lost database, restarts included) the next certificate the node builds — with the PP flow
    or the aggchain-prover flow — has the correct height, previous exit root and first block**: the ones the Agglayer's
    records require -/
theorem C13_next_certificate_correct (size : Params → Nat) (s : Sys) (h : Reachable size s) (hup : s.up = true)
    (c : ACert) (retry tb : Nat) (hb : (buildAny size s).1 = .cert c retry tb) :
    (c.height, c.prev, c.from_) = expect s.cfg s.agg ∧
    (∀ x, s.agg.getLast? = some x → x.status.isOpen = false) := by
  have hi := reachable_inv size s h
  have hs := hi.syncUp hup
  obtain ⟨b1, _, _, _, _, _, _, _, b9⟩ := buildAny_spec size s hi hup c retry tb hb
  refine ⟨b1, ?_⟩
  intro x hx
  unfold SyncUp at hs
  rw [hx] at hs
  cases hl : lastRow s.loc with
  | none => rw [hl] at hs; exact absurd hs (by simp)
  | some r =>
    rw [hl] at hs
    have hm : Matches r x := hs
    have hc := b9 r hl
    rcases hm.status with e | e
    · rw [← e]; exact hc
    · rw [hc] at e; cases e

/-- the node never holds two certificates for one height -/
theorem C13_one_per_height (size : Params → Nat) (s : Sys) (h : Reachable size s) :
    s.loc.Pairwise (fun a b => a.height < b.height) := (reachable_inv size s h).sorted

theorem restart_up (s : Sys) (h : (restart s).2 = true) : (restart s).1.up = true := by
  unfold restart at h ⊢
  by_cases hu : s.up = true
  · rw [if_pos hu]; exact hu
  · rw [if_neg hu] at h ⊢
    generalize poll s = pr at h ⊢
    obtain ⟨s1, p⟩ := pr
    simp only at h ⊢
    by_cases hfr : s1.failRec = true
    · simp only [hfr, if_true] at h; cases h
    · simp only [hfr, Bool.false_eq_true, if_false] at h ⊢
      cases hpr : process (lastSettled s1.agg) (lastPending s1.agg) (lastRow s1.loc) with
      | none => rw [hpr] at h; simp at h
      | some a => cases a <;> simp

/-- **a successful start-up reconciliation leaves records that describe the Agglayer's last certificate** (or none
    when the Agglayer has none), whatever state the node stopped in -/
theorem C13_restart_reconciles (size : Params → Nat) (s : Sys) (h : Reachable size s) (hok : (restart s).2 = true) :
    SyncUp (restart s).1.loc (restart s).1.agg :=
  (restart_inv s (reachable_inv size s h)).syncUp (restart_up s hok)

/-! ### the reconciliation refuses only when a call to the Agglayer fails -/

theorem chain_last (s : Sys) (hi : Inv s) (pre : List ACert) (d : ACert) (hpre : s.agg = pre ++ [d]) :
    CertOK s.cfg pre d := by
  have hidx : pre.length < s.agg.length := by rw [hpre]; simp
  have := hi.chain pre.length hidx
  simpa [hpre] using this

theorem consistent_of_inv (s : Sys) (hi : Inv s) :
    agglayerConsistent (lastSettled s.agg) (lastPending s.agg) = true := by
  cases hg : s.agg.getLast? with
  | none => unfold lastPending; rw [hg]; simp [agglayerConsistent]
  | some d =>
    obtain ⟨pre, hpre⟩ := List.getLast?_eq_some_iff.mp hg
    have hd := (chain_last s hi pre d hpre).1
    unfold lastPending; rw [hg]
    by_cases hst : d.status = .settled
    · simp [hst, agglayerConsistent]
    · simp only [hst, if_false]
      rw [hpre, lastSettled_snoc, if_neg hst]
      cases hls : lastSettled pre with
      | none =>
        rw [expect_start _ _ hls] at hd
        simp only [Prod.mk.injEq] at hd
        simp [agglayerConsistent, hd.1]
      | some st =>
        rw [expect_after _ _ _ hls] at hd
        simp only [Prod.mk.injEq] at hd
        simp only [agglayerConsistent, hd.1]
        simp

/-- the decision once the Agglayer's answers are consistent and the node has a record -/
theorem process_some_row (settled pending : Option ACert) (l : Row) (d : ACert)
    (hc : agglayerConsistent settled pending = true) (hl : lastOfPS settled pending = some d) :
    process settled pending (some l) =
      (if d.height < l.height then none
       else if d.height = l.height + 1 then some (Action.insert d)
       else if l.id ≠ d.id then
         (if l.status = St.inError ∧ d.height = l.height then some (Action.insert d) else none)
       else some (Action.update d)) := by
  unfold process
  rw [hc]
  unfold lastOfPS at hl
  cases settled <;> cases pending <;> simp only [] at hl ⊢
  · cases hl
  all_goals (cases hl; simp)

theorem process_total (s : Sys) (hi : Inv s) (hd : s.up = false) :
    ∃ a, process (lastSettled s.agg) (lastPending s.agg) (lastRow s.loc) = some a := by
  have hc := consistent_of_inv s hi
  have hlast := lastOf s.agg
  rcases hi.syncDown hd with hl | ⟨r, hl, hcase⟩
  · -- no records
    rw [hl]
    unfold process
    rw [hc]
    cases hs : lastSettled s.agg <;> cases hp : lastPending s.agg <;> simp only []
    · simp
    · rename_i p
      -- no settled certificate: the pending one has height 0
      have hg : s.agg.getLast? = some p := by rw [← hlast, hs, hp]; rfl
      obtain ⟨pre, hpre⟩ := List.getLast?_eq_some_iff.mp hg
      have hd0 := (chain_last s hi pre p hpre).1
      have hns : p.status ≠ .settled := by
        intro hst
        unfold lastPending at hp; rw [hg] at hp; simp [hst] at hp
      rw [hpre, lastSettled_snoc, if_neg hns] at hs
      rw [expect_start _ _ hs] at hd0
      simp only [Prod.mk.injEq] at hd0
      simp [hd0.1]
    · simp
    · simp
  · rw [hl]
    rcases hcase with ⟨c, hg, hm⟩ | ⟨pre, c, d, hpre, hm, hst, hcl⟩
    · rw [process_some_row _ _ r c hc (by rw [hlast]; exact hg)]
      have h1 : ¬ c.height < r.height := by rw [hm.height]; omega
      have h2 : ¬ c.height = r.height + 1 := by rw [hm.height]; omega
      have h3 : ¬ r.id ≠ c.id := by rw [hm.id]; simp
      rw [if_neg h1, if_neg h2, if_neg h3]
      exact ⟨_, rfl⟩
    · have hg : s.agg.getLast? = some d := by rw [hpre]; simp
      rw [process_some_row _ _ r d hc (by rw [hlast]; exact hg)]
      have hpre' : s.agg = (pre ++ [c]) ++ [d] := by rw [hpre]; simp
      have hdd := (chain_last s hi (pre ++ [c]) d hpre').1
      have hidc : c.id = pre.length + 1 := by
        have := hi.ids pre.length (by rw [hpre]; simp)
        simpa [hpre] using this
      have hidd : d.id = pre.length + 2 := by
        have := hi.ids (pre.length + 1) (by rw [hpre]; simp)
        simpa [hpre] using this
      rcases St.closed_cases _ hcl with hset | herr
      · rw [expect_snoc_settled _ _ _ hset] at hdd
        simp only [Prod.mk.injEq] at hdd
        have h1 : ¬ d.height < r.height := by rw [hm.height]; omega
        have h2 : d.height = r.height + 1 := by rw [hm.height]; omega
        rw [if_neg h1, if_pos h2]
        exact ⟨_, rfl⟩
      · have hcc : CertOK s.cfg pre c := by
          have := hi.chain pre.length (by rw [hpre]; simp)
          simpa [hpre] using this
        rw [expect_snoc_not _ _ _ (by rw [herr]; simp), ← hcc.1] at hdd
        simp only [Prod.mk.injEq] at hdd
        have h1 : ¬ d.height < r.height := by rw [hm.height]; omega
        have h2 : ¬ d.height = r.height + 1 := by rw [hm.height]; omega
        have h3 : r.id ≠ d.id := by rw [hm.id]; omega
        have h4 : r.status = St.inError ∧ d.height = r.height := ⟨by rw [hst]; exact herr, by rw [hm.height]; exact hdd.1⟩
        rw [if_neg h1, if_neg h2, if_pos h3, if_pos h4]
        exact ⟨_, rfl⟩

/-- **no refusal without a contradiction**: in every state a history can leave the node in (stopped between two
    iterations, stopped between a submission and its record — also the submission of a replacement —, database lost),
    the start-up reconciliation succeeds unless a call to the Agglayer fails. The records of a reachable state never
    contradict the Agglayer's, so this is the "refuses only on contradiction" half of C13 for honest histories; the
    refusing branches themselves are `process`'s `none` results (kept verbatim in the model). -/
theorem C13_reconciliation_succeeds (size : Params → Nat) (s : Sys) (h : Reachable size s) (hd : s.up = false)
    (hfr : s.failRec = false) : (restart s).2 = true := by
  have hi := reachable_inv size s h
  unfold restart
  rw [if_neg (by rw [hd]; simp)]
  obtain ⟨f, hf, he⟩ := poll_map s
  have h1 : Inv (poll s).1 := by rw [he]; exact (inv_map_loc s hi f hf).of_eq rfl rfl rfl rfl rfl
  have hd1 : (poll s).1.up = false := by rw [he]; exact hd
  have hf1 : (poll s).1.failRec = false := by rw [he]; exact hfr
  generalize poll s = pr at h1 hd1 hf1
  obtain ⟨s1, p⟩ := pr
  simp only at h1 hd1 hf1 ⊢
  rw [hf1]
  simp only [Bool.false_eq_true, if_false]
  obtain ⟨a, ha⟩ := process_total s1 h1 hd1
  rw [ha]
  cases a <;> rfl

/-- non-vacuity: the demo history of C02 stops the node between submitting a replacement and recording it; the
    restart succeeds and the records then describe the Agglayer's last certificate -/
example : (run sizeExact {} (demoOps.take 6)).up = false ∧ (run sizeExact {} (demoOps.take 6)).agg.length = 2 ∧
    (run sizeExact {} (demoOps.take 6)).loc.map (·.id) = [1] ∧
    (restart (run sizeExact {} (demoOps.take 6))).2 = true ∧
    (restart (run sizeExact {} (demoOps.take 6))).1.loc.map (·.id) = [2] := by decide


/-- the byte layout of the certificate metadata word that `Model/Certificate.lean` (`metaToHash` / `metaFromHash`) assumes,
    as the code has it now (regenerated from /repo on every run) -/
theorem C13_code_facts :
    Gen.CertFacts.metaDecodeLayout = ["0", "1:9", "9:13", "13:17", "1:9", "9:13", "13:17", "17"] ∧
    Gen.CertFacts.metaEncodeLayout = ["0", "1:9", "9:13", "13:17", "17"] := by decide

/-! ### the decision function, regenerated from the source -/

open Aggkit.GenPrelude

def stCode : St → Nat
  | .pending => 0 | .proven => 1 | .candidate => 2 | .inError => 3 | .settled => 4
def hdrOfCert (c : ACert) : CertHdr := { Height := c.height, Status := stCode c.status, CertificateID := c.id }
def hdrOfRow (r : Row) : CertHdr := { Height := r.height, Status := stCode r.status, CertificateID := r.id }
def encodeAct : Option Action → Ret
  | none => .error
  | some .none => .result 0 none
  | some (.update c) => .result 1 (some (hdrOfCert c))
  | some (.insert c) => .result 2 (some (hdrOfCert c))

theorem stCode_inError (s : St) : (stCode s == 3) = decide (s = .inError) := by cases s <;> rfl

/-- case split on a proposition, keeping it as a rewrite rule for the PROPOSITION (`P = True` / `P = False`), never for a term -/
syntax "bcases " ident " : " term " => " tactic : tactic
macro_rules
  | `(tactic| bcases $h:ident : $p:term => $t:tactic) =>
    `(tactic| ((by_cases $h:ident : $p) <;> (first | replace $h:ident := eq_false $h | replace $h:ident := eq_true $h) <;> $t:tactic))

/-- **the decision table of the start-up reconciliation IS the source**: `Gen.InitialStatus.initialStatus_process` is the
    translation of `initialStatus.process` (with `checkAgglayerConsistenceCerts` and `getLatestAggLayerCert`) that
    `tools/goextract` regenerates from aggsender/statuschecker/initial_state.go on every run — pointers as `Option`, a nil
    dereference as `none`. For every combination of Agglayer answers and local record the Go function returns what the
    model's `process` (about which `process_spec` and the C13 theorems speak) returns, and never dereferences nil.
    Heights are `uint64` in the code: the hypothesis excludes only a local record at height 2^64-1. -/
theorem C13_process_is_the_source (settled pending : Option ACert) (loc : Option Row) (hb : ∀ l ∈ loc, l.height + 1 < 2^64) :
    Gen.InitialStatus.initialStatus_process ⟨settled.map hdrOfCert, pending.map hdrOfCert, loc.map hdrOfRow⟩
      = some (encodeAct (process settled pending loc)) := by
  have hmod : ∀ l ∈ loc, (l.height + 1) % 18446744073709551616 = l.height + 1 := fun l hl =>
    Nat.mod_eq_of_lt (by have := hb l hl; simpa using this)
  cases settled with
  | none =>
    cases pending with
    | none => cases loc <;> simp [Gen.InitialStatus.initialStatus_process, Gen.InitialStatus.initialStatus_checkAgglayerConsistenceCerts,
    Gen.InitialStatus.initialStatus_getLatestAggLayerCert, Gen.InitialStatus.CertificateStatus_IsInError,
    Gen.InitialStatus.InError, Gen.InitialStatus.InitialStatusActionNone, Gen.InitialStatus.InitialStatusActionInsertNewCert,
    Gen.InitialStatus.InitialStatusActionUpdateCurrentCert,
    process, agglayerConsistent, encodeAct, hdrOfCert, hdrOfRow, stCode_inError, add64]
    | some p =>
      cases loc with
      | none =>
        simp [Gen.InitialStatus.initialStatus_process, Gen.InitialStatus.initialStatus_checkAgglayerConsistenceCerts,
    Gen.InitialStatus.initialStatus_getLatestAggLayerCert, Gen.InitialStatus.CertificateStatus_IsInError,
    Gen.InitialStatus.InError, Gen.InitialStatus.InitialStatusActionNone, Gen.InitialStatus.InitialStatusActionInsertNewCert,
    Gen.InitialStatus.InitialStatusActionUpdateCurrentCert,
    process, agglayerConsistent, encodeAct, hdrOfCert, hdrOfRow, stCode_inError, add64]
        bcases h1 : p.status = .inError => bcases h2 : p.height = 0 => simp [h1, h2, Nat.pos_iff_ne_zero]
      | some l =>
        have hm := hmod l rfl
        simp [Gen.InitialStatus.initialStatus_process, Gen.InitialStatus.initialStatus_checkAgglayerConsistenceCerts,
    Gen.InitialStatus.initialStatus_getLatestAggLayerCert, Gen.InitialStatus.CertificateStatus_IsInError,
    Gen.InitialStatus.InError, Gen.InitialStatus.InitialStatusActionNone, Gen.InitialStatus.InitialStatusActionInsertNewCert,
    Gen.InitialStatus.InitialStatusActionUpdateCurrentCert,
    process, agglayerConsistent, encodeAct, hdrOfCert, hdrOfRow, stCode_inError, add64, hm]
        bcases h1 : p.status = .inError => bcases h2 : p.height = 0 => bcases h3 : p.height < l.height =>
          bcases h4 : p.height = l.height + 1 => bcases h5 : l.id = p.id => bcases h6 : l.status = .inError =>
          bcases h7 : p.height = l.height => simp [h1, h2, h3, h4, h5, h6, h7, Nat.pos_iff_ne_zero]
  | some st =>
    cases pending with
    | none =>
      cases loc with
      | none => simp [Gen.InitialStatus.initialStatus_process, Gen.InitialStatus.initialStatus_checkAgglayerConsistenceCerts,
    Gen.InitialStatus.initialStatus_getLatestAggLayerCert, Gen.InitialStatus.CertificateStatus_IsInError,
    Gen.InitialStatus.InError, Gen.InitialStatus.InitialStatusActionNone, Gen.InitialStatus.InitialStatusActionInsertNewCert,
    Gen.InitialStatus.InitialStatusActionUpdateCurrentCert,
    process, agglayerConsistent, encodeAct, hdrOfCert, hdrOfRow, stCode_inError, add64]
      | some l =>
        have hm := hmod l rfl
        simp [Gen.InitialStatus.initialStatus_process, Gen.InitialStatus.initialStatus_checkAgglayerConsistenceCerts,
    Gen.InitialStatus.initialStatus_getLatestAggLayerCert, Gen.InitialStatus.CertificateStatus_IsInError,
    Gen.InitialStatus.InError, Gen.InitialStatus.InitialStatusActionNone, Gen.InitialStatus.InitialStatusActionInsertNewCert,
    Gen.InitialStatus.InitialStatusActionUpdateCurrentCert,
    process, agglayerConsistent, encodeAct, hdrOfCert, hdrOfRow, stCode_inError, add64, hm]
        bcases h3 : st.height < l.height =>
          bcases h4 : st.height = l.height + 1 => bcases h5 : l.id = st.id => bcases h6 : l.status = .inError =>
          bcases h7 : st.height = l.height => simp [h3, h4, h5, h6, h7]
    | some p =>
      cases loc with
      | none =>
        simp [Gen.InitialStatus.initialStatus_process, Gen.InitialStatus.initialStatus_checkAgglayerConsistenceCerts,
    Gen.InitialStatus.initialStatus_getLatestAggLayerCert, Gen.InitialStatus.CertificateStatus_IsInError,
    Gen.InitialStatus.InError, Gen.InitialStatus.InitialStatusActionNone, Gen.InitialStatus.InitialStatusActionInsertNewCert,
    Gen.InitialStatus.InitialStatusActionUpdateCurrentCert,
    process, agglayerConsistent, encodeAct, hdrOfCert, hdrOfRow, stCode_inError, add64]
        bcases g1 : p.height = st.height => bcases g2 : st.status = .inError => bcases g3 : p.height < st.height =>
          simp [g1, g2, g3]
      | some l =>
        have hm := hmod l rfl
        simp [Gen.InitialStatus.initialStatus_process, Gen.InitialStatus.initialStatus_checkAgglayerConsistenceCerts,
    Gen.InitialStatus.initialStatus_getLatestAggLayerCert, Gen.InitialStatus.CertificateStatus_IsInError,
    Gen.InitialStatus.InError, Gen.InitialStatus.InitialStatusActionNone, Gen.InitialStatus.InitialStatusActionInsertNewCert,
    Gen.InitialStatus.InitialStatusActionUpdateCurrentCert,
    process, agglayerConsistent, encodeAct, hdrOfCert, hdrOfRow, stCode_inError, add64, hm]
        bcases g1 : p.height = st.height => bcases g2 : st.status = .inError => bcases g3 : p.height < st.height =>
          bcases h3 : p.height < l.height =>
          bcases h4 : p.height = l.height + 1 => bcases h5 : l.id = p.id => bcases h6 : l.status = .inError =>
          bcases h7 : p.height = l.height => simp [g1, g2, g3, h3, h4, h5, h6, h7]


/-! ### where the next certificate starts, regenerated from the source -/

def sentHdrOfRow (r : Row) : SentHdr := { ToBlock := r.to_, FromBlock := r.from_, Status := stCode r.status, RetryCount := r.retry }

/-- **`getLastSentBlockAndRetryCount` IS the source**: the translation of `baseFlow.getLastSentBlockAndRetryCount`
    (aggsender/flows/flow_base.go: local variables re-assigned inside nested `if`s, a nil check, a read through the pointer)
    that `tools/goextract` regenerates on every run returns, for every record, what the model's `lastSentBlockAndRetry`
    returns — the block after which the next certificate starts and its retry count (C02's "no gap, no overlap" and C13's
    "correct first block" are stated over this function). The bounds are those of the Go types (`uint64` blocks, `int` count). -/
theorem C13_next_start_is_the_source (start : Nat) (row : Option Row)
    (hb : ∀ r ∈ row, r.from_ < 2^64 ∧ r.retry + 1 < 2^64) :
    Gen.FlowBase.baseFlow_getLastSentBlockAndRetryCount ⟨start⟩ (row.map sentHdrOfRow) = some (lastSentBlockAndRetry start row) := by
  cases row with
  | none => simp [Gen.FlowBase.baseFlow_getLastSentBlockAndRetryCount, lastSentBlockAndRetry]
  | some r =>
    obtain ⟨h1, h2⟩ := hb r rfl
    have e1 : add64 r.retry 1 = r.retry + 1 := by unfold add64; exact Nat.mod_eq_of_lt h2
    have e2 : r.from_ > 0 → sub64 r.from_ 1 = r.from_ - 1 := by
      intro hp
      unfold sub64
      have h1' : (1 : Nat) % 2 ^ 64 = 1 := Nat.mod_eq_of_lt (by decide)
      rw [h1']
      have : r.from_ + 2 ^ 64 - 1 = (r.from_ - 1) + 2 ^ 64 := by omega
      rw [this, Nat.add_mod_right]
      exact Nat.mod_eq_of_lt (by omega)
    simp only [Gen.FlowBase.baseFlow_getLastSentBlockAndRetryCount, Gen.FlowBase.InError, lastSentBlockAndRetry, sentHdrOfRow,
      Option.map_some, Option.pure_def, Option.bind_eq_bind, Option.bind_some, Option.isNone_some, Bool.false_eq_true, if_false,
      stCode_inError, e1]
    by_cases he : r.status = .inError
    · by_cases hf : r.from_ > 0
      · simp [he, hf, e2 hf]
      · have : r.from_ = 0 := by omega
        simp [he, this]
    · simp [he]

/-! ### height and previous exit root of the next certificate, regenerated from the source -/

def fullHdrOfRow (r : Row) : FullHdr :=
  { Height := r.height, Status := stCode r.status, NewLocalExitRoot := r.new, PreviousLocalExitRoot := r.prev }

/-- the environment the model assumes: the network's start exit root is the empty tree's (0 leaves), the store answers every
    height query with the row it holds there -/
def envOf (loc : List Row) : baseFlowEnv :=
  { getStartLER := some 0, headerByHeight := fun h => some ((rowAt loc h).map fullHdrOfRow) }

theorem stCode_isOpen (s : St) : Gen.NextHeight.CertificateStatus_IsOpen (stCode s) = s.isOpen := by cases s <;> rfl
theorem stCode_isSettled (s : St) : Gen.NextHeight.CertificateStatus_IsSettled (stCode s) = decide (s = .settled) := by
  cases s <;> rfl
theorem stCode_isInError2 (s : St) : Gen.NextHeight.CertificateStatus_IsInError (stCode s) = decide (s = .inError) := by
  cases s <;> rfl

/-- **`getNextHeightAndPreviousLER` IS the source**: the translation of `baseFlow.getNextHeightAndPreviousLER` (nil check,
    status predicates, a pointer field inside the record, two calls into the environment — `getStartLER` and the store's
    `GetCertificateHeaderByHeight` — each with its error branch) regenerated from aggsender/flows/flow_base.go on every run
    returns, for every last record and every store content, what the model's `nextHeightPrev` returns: the height and the
    previous exit root every certificate is built from (C02's chain, C13's "correct height, previous exit root"). It never
    dereferences nil. Bound: heights are `uint64`. -/
theorem C13_next_height_is_the_source (loc : List Row) (last : Option Row) (hb : ∀ r ∈ last, r.height + 1 < 2^64) :
    Gen.NextHeight.baseFlowEnv_getNextHeightAndPreviousLER (envOf loc) (last.map fullHdrOfRow) = some (nextHeightPrev loc last) := by
  cases last with
  | none => simp [Gen.NextHeight.baseFlowEnv_getNextHeightAndPreviousLER, envOf, nextHeightPrev]
  | some r =>
    have h2 := hb r rfl
    have e1 : add64 r.height 1 = r.height + 1 := by unfold add64; exact Nat.mod_eq_of_lt h2
    have e2 : r.height ≠ 0 → sub64 r.height 1 = r.height - 1 := by
      intro hp
      unfold sub64
      have h1' : (1 : Nat) % 2 ^ 64 = 1 := Nat.mod_eq_of_lt (by decide)
      rw [h1']
      have : r.height + 2 ^ 64 - 1 = (r.height - 1) + 2 ^ 64 := by omega
      rw [this, Nat.add_mod_right]
      exact Nat.mod_eq_of_lt (by omega)
    simp only [Gen.NextHeight.baseFlowEnv_getNextHeightAndPreviousLER, Gen.NextHeight.CertificateStatus_IsClosed, envOf, nextHeightPrev,
      fullHdrOfRow, Option.map_some, Option.pure_def, Option.bind_eq_bind, Option.bind_some, Option.isNone_some, Bool.false_eq_true,
      if_false, stCode_isOpen, stCode_isSettled, stCode_isInError2, e1, Bool.not_not]
    cases hs : r.status <;> simp [hs, St.isOpen] <;>
      (cases hp : r.prev <;> simp [hp]) <;>
      (by_cases h0 : r.height = 0 <;> simp [h0, e2]) <;>
      (cases hq : rowAt loc (r.height - 1) <;> simp [hq, fullHdrOfRow, stCode_isSettled]) <;>
      (rename_i q; by_cases hst : q.status = .settled <;> simp [hst])

end Aggkit.Aggsender
