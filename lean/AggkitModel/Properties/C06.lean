import AggkitModel.Proofs.ReorgSync
import AggkitModel.Generated.CertFacts
import AggkitModel.Generated.SyncFacts
/-
C06 — reorgs of processed blocks are detected; the node converges to the canonical chain.
Property theorems only. Quantifiers: every chain history (new blocks, reorgs at any depth above the finalized block, new
forks shorter or longer than the old one, successive reorgs, finality moving at any time), two subscribers progressing at
any relative speed, detection passes and restarts at any moment, any length.
The schedule is sequential (each operation completes before the next starts); see the model file and known finding F5.
-/
namespace Aggkit.ReorgSync

def SysInv (s : Sys) : Prop := SubInv s.chain s.fin s.a ∧ SubInv s.chain s.fin s.b

/-- admissible operations: finalized blocks exist and are never replaced; finality only moves forward; block hashes do
    not repeat -/
def OpOK (s : Sys) : Op → Prop
  | .blk v => v = 0 ∨ s.maxV < v          -- a block without events, or one whose hash (version) never occurred before
  | .reorg k => s.fin < k
  | .fin f => s.fin ≤ f ∧ f ≤ s.chain.length
  | _ => True

theorem subInv_chain (chain chain' : List Nat) (fin fin' : Nat) (s : Sub) (hi : SubInv chain fin s)
    (h : ∀ b : Blk, Canon chain b → b.1 ≤ fin → Canon chain' b ∧ b.1 ≤ fin') : SubInv chain' fin' s := by
  refine ⟨?_, hi.trackedStored, hi.sortedS, hi.pos, hi.sortedT, hi.dbEq⟩
  intro b hb
  rcases hi.covered b hb with h1 | h1
  · exact Or.inl h1
  · exact Or.inr (h b h1.1 h1.2)

theorem step_inv (s : Sys) (hi : SysInv s) (op : Op) (hop : OpOK s op) : SysInv (step s op) := by
  obtain ⟨ha, hb⟩ := hi
  cases op with
  | blk v =>
    have key : ∀ b : Blk, Canon s.chain b → b.1 ≤ s.fin → Canon (s.chain ++ [v]) b ∧ b.1 ≤ s.fin := by
      intro b hc hf
      unfold Canon at hc ⊢
      exact ⟨by rw [canon_append _ _ _ (canon_some_le _ _ _ hc).2]; exact hc, hf⟩
    exact ⟨subInv_chain _ _ _ _ _ ha key, subInv_chain _ _ _ _ _ hb key⟩
  | reorg k =>
    have hk : s.fin < k := hop
    have key : ∀ b : Blk, Canon s.chain b → b.1 ≤ s.fin → Canon (s.chain.take (k - 1)) b ∧ b.1 ≤ s.fin := by
      intro b hc hf
      unfold Canon at hc ⊢
      exact ⟨by rw [canon_take _ _ _ (by omega)]; exact hc, hf⟩
    exact ⟨subInv_chain _ _ _ _ _ ha key, subInv_chain _ _ _ _ _ hb key⟩
  | fin f =>
    have hf : s.fin ≤ f := hop.1
    have key : ∀ b : Blk, Canon s.chain b → b.1 ≤ s.fin → Canon s.chain b ∧ b.1 ≤ f := fun b hc h => ⟨hc, by omega⟩
    exact ⟨subInv_chain _ _ _ _ _ ha key, subInv_chain _ _ _ _ _ hb key⟩
  | stepA n => exact ⟨stepN_inv _ _ n _ ha, hb⟩
  | stepB n => exact ⟨ha, stepN_inv _ _ n _ hb⟩
  | detect => exact ⟨(detectSub_spec _ _ _ ha).inv, (detectSub_spec _ _ _ hb).inv⟩
  | detectCrash => exact ⟨detectCrashSub_inv _ _ _ ha, detectCrashSub_inv _ _ _ hb⟩
  | restart =>
    simp only [step]
    rw [restartSub_eq _ _ _ ha, restartSub_eq _ _ _ hb]; exact ⟨ha, hb⟩

theorem storeCrash (chain : List Nat) (fin : Nat) : ∀ (ts : List Blk) (s : Sub),
    (detectLoopCrash chain fin ts s).store = s.store := by
  intro ts
  induction ts with
  | nil => intro s; rfl
  | cons t rest ih =>
    intro s
    unfold detectLoopCrash
    cases canon chain t.1 with
    | none => rfl
    | some v =>
      simp only
      split
      · rw [ih]; split <;> rfl
      · rfl

/-- admissibility of a whole history, each operation judged in the state it is applied to -/
def OpsOK : Sys → List Op → Prop
  | _, [] => True
  | s, op :: rest => OpOK s op ∧ OpsOK (step s op) rest

theorem run_inv : ∀ (ops : List Op) (s : Sys), SysInv s → OpsOK s ops → SysInv (run s ops) := by
  intro ops
  induction ops with
  | nil => intro s hi _; exact hi
  | cons op rest ih =>
    intro s hi hok
    unfold run
    simp only [List.foldl_cons]
    exact ih _ (step_inv s hi op hok.1) hok.2

theorem init_inv : SysInv {} := by
  constructor <;> exact ⟨fun b hb => by simp at hb, fun b hb => by simp at hb, by simp, fun b hb => by simp at hb, by simp, rfl⟩

/-- a state some admissible history leads to -/
def Reachable (s : Sys) : Prop := ∃ ops, OpsOK {} ops ∧ s = run {} ops

theorem reachable_inv (s : Sys) (h : Reachable s) : SysInv s := by
  obtain ⟨ops, hok, e⟩ := h
  rw [e]; exact run_inv ops {} init_inv hok

/-- **every stored block is accounted for**: in every reachable state each block a syncer has processed is either still
    tracked by the detector with the hash it was processed with, or was delivered as finalized and is on the chain -/
theorem C06_tracked_or_final (s : Sys) (h : Reachable s) :
    (∀ b ∈ s.a.store, b ∈ s.a.tracked ∨ (Canon s.chain b ∧ b.1 ≤ s.fin)) ∧
    (∀ b ∈ s.b.store, b ∈ s.b.tracked ∨ (Canon s.chain b ∧ b.1 ≤ s.fin)) :=
  ⟨(reachable_inv s h).1.covered, (reachable_inv s h).2.covered⟩

/-- **detection**: after a detection pass that could fetch the headers it needed, no block that the chain has replaced
    remains in the syncer's store — the syncer has been rewound to at or before the first replaced block it had
    processed; and the rewind point is exactly the first tracked block whose hash differs -/
theorem C06_detected (chain : List Nat) (fin : Nat) (s : Sub) (hi : SubInv chain fin s)
    (hne : (detectSub chain fin s).2 ≠ .err) :
    (∀ b ∈ (detectSub chain fin s).1.store, Canon chain b) ∧
    (∀ n, (detectSub chain fin s).2 = .rewind n →
      (∃ b ∈ s.tracked, b.1 = n ∧ ¬ Canon chain b) ∧ (∀ b ∈ s.tracked, b.1 < n → Canon chain b) ∧
      (detectSub chain fin s).1.store = s.store.filter (fun x => decide (x.1 < n))) :=
  ⟨(detectSub_spec chain fin s hi).clean hne, (detectSub_spec chain fin s hi).first⟩

/-- **no spurious rewind**: if nothing the syncer processed has been replaced, a detection pass leaves its store alone -/
theorem C06_no_spurious_rewind (chain : List Nat) (fin : Nat) (s : Sub) (hi : SubInv chain fin s)
    (hall : ∀ b ∈ s.store, Canon chain b) :
    (detectSub chain fin s).2 = .none ∧ (detectSub chain fin s).1.store = s.store :=
  (detectSub_spec chain fin s hi).quiet (fun b hb => hall b (hi.trackedStored b hb))

/-- **restart**: in every reachable state a restart of the node changes nothing — the tracked headers rebuilt from table
    `tracked_block` are the in-memory ones (so everything proved about detection holds across restarts) -/
theorem C06_restart (s : Sys) (h : Reachable s) : step s .restart = s := by
  obtain ⟨ha, hb⟩ := reachable_inv s h
  simp only [step]
  rw [restartSub_eq _ _ _ ha, restartSub_eq _ _ _ hb]

/-- rebuilding the map from rows with distinct block numbers, in ANY order: a permutation of the rows, ascending -/
theorem foldl_trackAdd_perm : ∀ (rows acc : List Blk), acc.Pairwise (fun x y => x.1 < y.1) →
    (acc ++ rows).Pairwise (fun x y => x.1 ≠ y.1) →
    (rows.foldl trackAdd acc).Perm (acc ++ rows) ∧ (rows.foldl trackAdd acc).Pairwise (fun x y => x.1 < y.1) := by
  intro rows
  induction rows with
  | nil => intro acc hs _; simpa using hs
  | cons r rest ih =>
    intro acc hs hd
    simp only [List.foldl_cons]
    have hne : ∀ a ∈ acc, a.1 ≠ r.1 := fun a ha => (List.pairwise_append.mp hd).2.2 a ha r (List.mem_cons_self ..)
    have hn : r ∉ acc := fun hr => hne r hr rfl
    have hp : (trackAdd acc r).Perm (acc ++ [r]) := by
      unfold trackAdd
      rw [if_neg hn]
      have hsplit : (acc.filter (fun t => decide (t.1 < r.1)) ++ acc.filter (fun t => decide (r.1 < t.1))).Perm acc := by
        have h2 : acc.filter (fun t => decide (r.1 < t.1)) = acc.filter (fun t => !decide (t.1 < r.1)) := by
          apply List.filter_congr
          intro x hx
          have := hne x hx
          by_cases hlt : x.1 < r.1
          · have : ¬ r.1 < x.1 := by omega
            simp [hlt, this]
          · have : r.1 < x.1 := by omega
            simp [hlt, this]
        rw [h2]
        exact List.filter_append_perm _ _
      have h3 : (acc.filter (fun t => decide (t.1 < r.1)) ++ [r] ++ acc.filter (fun t => decide (r.1 < t.1))).Perm
          (r :: (acc.filter (fun t => decide (t.1 < r.1)) ++ acc.filter (fun t => decide (r.1 < t.1)))) := by
        rw [List.append_assoc]; exact List.perm_middle
      exact h3.trans ((List.Perm.cons r hsplit).trans (List.perm_append_singleton r acc).symm)
    have hd' : (trackAdd acc r ++ rest).Pairwise (fun x y => x.1 ≠ y.1) := by
      have h1 : (trackAdd acc r ++ rest).Perm (acc ++ r :: rest) := by
        have := hp.append_right rest
        simpa using this
      exact (List.Perm.pairwise_iff (fun {x y} (h : x.1 ≠ y.1) => Ne.symm h) h1).mpr hd
    obtain ⟨p1, p2⟩ := ih (trackAdd acc r) (trackAdd_sorted _ _ hs) hd'
    refine ⟨?_, p2⟩
    have := hp.append_right rest
    exact p1.trans (by simpa using this)

/-- **the reload does not depend on the order of the rows**: the query that loads `tracked_block` at start-up orders by
    subscriber only; whatever order the rows of a subscriber come back in, the rebuilt list is the in-memory list the node
    had before it stopped -/
theorem C06_reload_any_order (chain : List Nat) (fin : Nat) (s : Sub) (hi : SubInv chain fin s) (rows : List Blk)
    (hp : rows.Perm s.db) : reload rows = s.tracked := by
  rw [hi.dbEq] at hp
  have hdist : (([] : List Blk) ++ rows).Pairwise (fun (x y : Blk) => x.1 ≠ y.1) := by
    simp only [List.nil_append]
    refine (List.Perm.pairwise_iff (R := fun (x y : Blk) => x.1 ≠ y.1) (fun {x y} h => Ne.symm h) hp).mpr ?_
    exact List.Pairwise.imp (fun {a b : Blk} (h : a.1 < b.1) => Nat.ne_of_lt h) hi.sortedT
  obtain ⟨p1, p2⟩ := foldl_trackAdd_perm rows [] (by simp) hdist
  have hperm : (reload rows).Perm s.tracked := by
    unfold reload; exact (by simpa using p1 : (rows.foldl trackAdd []).Perm rows).trans hp
  exact List.Perm.eq_of_pairwise (le := fun x y => x.1 < y.1) (fun a b _ _ h1 h2 => by omega) p2 hi.sortedT hperm

example : reload [(7, 3), (2, 1), (5, 2)] = [(2, 1), (5, 2), (7, 3)] := by decide

/-- **stopped during the reorg**: if the node is stopped while a syncer is rewinding (the rewind not committed), the stale
    blocks stay in the store but also stay tracked, so the invariant behind `C06_detected` survives the restart: the next
    detection pass rewinds again -/
theorem C06_stopped_during_reorg (s : Sys) (h : Reachable s) :
    SysInv (step s .detectCrash) ∧ (step s .detectCrash).a.store = s.a.store ∧ (step s .detectCrash).b.store = s.b.store := by
  have hi := reachable_inv s h
  refine ⟨step_inv s hi .detectCrash trivial, ?_, ?_⟩
  · exact (storeCrash s.chain s.fin s.a.tracked s.a)
  · exact (storeCrash s.chain s.fin s.b.tracked s.b)

/-! ### what the store holds besides: only blocks with events, with hashes that occurred; no gap below a clean prefix -/

/-- second invariant (on top of `SubInv`): the store holds only blocks with events, whose versions have been handed out;
    and **no gap**: if a stored block and every stored block below it are still on the chain, then every block with events
    that the chain has below it is in the store too (the downloader skipped nothing it should have delivered) -/
structure SubInv2 (chain : List Nat) (maxV : Nat) (s : Sub) : Prop where
  nz : ∀ b ∈ s.store, b.2 ≠ 0
  le : ∀ b ∈ s.store, b.2 ≤ maxV
  gap : ∀ b ∈ s.store, (∀ x ∈ s.store, x.1 ≤ b.1 → Canon chain x) →
    ∀ n v, n < b.1 → canon chain n = some v → v ≠ 0 → (n, v) ∈ s.store

def SysInv2 (s : Sys) : Prop :=
  (∀ v ∈ s.chain, v ≤ s.maxV) ∧ SubInv2 s.chain s.maxV s.a ∧ SubInv2 s.chain s.maxV s.b

theorem canon_mem (chain : List Nat) (n v : Nat) (h : canon chain n = some v) : v ∈ chain := by
  unfold canon at h
  by_cases h0 : n = 0
  · simp [h0] at h
  · simp only [h0, if_false] at h
    exact List.mem_of_getElem? h

theorem canon_append_cases (chain : List Nat) (v n w : Nat) (h : canon (chain ++ [v]) n = some w) :
    (n ≤ chain.length ∧ canon chain n = some w) ∨ (n = chain.length + 1 ∧ w = v) := by
  have hle := (canon_some_le _ _ _ h).2
  simp only [List.length_append, List.length_cons, List.length_nil] at hle
  by_cases hn : n ≤ chain.length
  · left; exact ⟨hn, by rw [← canon_append chain v n hn]; exact h⟩
  · right
    have e : n = chain.length + 1 := by omega
    refine ⟨e, ?_⟩
    subst e
    unfold canon at h
    simp at h
    exact h.symm

theorem canon_take_some (chain : List Nat) (k n w : Nat) (h : canon (chain.take (k - 1)) n = some w) :
    n < k ∧ canon chain n = some w := by
  have hle := canon_some_le _ _ _ h
  simp only [List.length_take] at hle
  have hk : n < k := by omega
  exact ⟨hk, by rw [← canon_take chain k n hk]; exact h⟩

theorem lastNum_concat (l : List Blk) (b : Blk) : lastNum (l ++ [b]) = b.1 := by
  unfold lastNum; simp

theorem lastNum_mem (l : List Blk) (h : lastNum l ≠ 0) : ∃ b ∈ l, b.1 = lastNum l := by
  unfold lastNum at h ⊢
  cases hg : l.getLast? with
  | none => rw [hg] at h; simp at h
  | some b => exact ⟨b, List.mem_of_getLast? hg, rfl⟩

/-- with every stored block on the chain, everything with events that the chain has up to the last stored block is stored -/
theorem complete_below (chain : List Nat) (fin maxV : Nat) (s : Sub) (hi : SubInv chain fin s) (h2 : SubInv2 chain maxV s)
    (hall : ∀ b ∈ s.store, Canon chain b) (n v : Nat) (hn : n ≤ lastNum s.store) (hc : canon chain n = some v)
    (hv : v ≠ 0) : (n, v) ∈ s.store := by
  have hn1 := (canon_some_le _ _ _ hc).1
  obtain ⟨lb, hlb, hl⟩ := lastNum_mem s.store (by omega)
  by_cases he : n = lastNum s.store
  · have := hall lb hlb
    unfold Canon at this
    rw [hl, ← he, hc] at this
    have e : lb = (n, v) := by
      cases lb with
      | mk a b => simp only at hl this ⊢; simp at this; rw [hl, ← he, this]
    rw [← e]; exact hlb
  · exact h2.gap lb hlb (fun x hx _ => hall x hx) n v (by omega) hc hv

theorem stepOnce_inv2 (chain : List Nat) (fin maxV : Nat) (s s' : Sub) (hi : SubInv chain fin s)
    (h2 : SubInv2 chain maxV s) (hcl : ∀ v ∈ chain, v ≤ maxV) (h : stepOnce chain fin s = some s') :
    SubInv2 chain maxV s' := by
  unfold stepOnce at h
  cases hc : nextDeliv chain (lastNum s.store + 1) with
  | none => rw [hc] at h; cases h
  | some b =>
    rw [hc] at h
    simp only [Option.some.injEq] at h
    subst h
    obtain ⟨hge, hcan, hnz, hskip⟩ := nextDeliv_some chain _ b (by omega) hc
    have hlt : ∀ x ∈ s.store, x.1 < b.1 := fun x hx => by
      have := le_lastNum_of_sorted s.store hi.sortedS x hx; omega
    refine ⟨?_, ?_, ?_⟩
    · intro x hx
      rcases List.mem_append.mp hx with hx | hx
      · exact h2.nz x hx
      · rw [List.mem_singleton.mp hx]; exact hnz
    · intro x hx
      rcases List.mem_append.mp hx with hx | hx
      · exact h2.le x hx
      · rw [List.mem_singleton.mp hx]; exact hcl _ (canon_mem _ _ _ hcan)
    · intro x hx hbelow n v hn hcn hv
      simp only at hx hbelow ⊢
      rcases List.mem_append.mp hx with hx | hx
      · exact List.mem_append_left _
          (h2.gap x hx (fun y hy hle => hbelow y (List.mem_append_left _ hy) hle) n v hn hcn hv)
      · rw [List.mem_singleton.mp hx] at hn
        have hall : ∀ y ∈ s.store, Canon chain y := fun y hy =>
          hbelow y (List.mem_append_left _ hy) (by rw [List.mem_singleton.mp hx]; exact Nat.le_of_lt (hlt y hy))
        by_cases hnl : n ≤ lastNum s.store
        · exact List.mem_append_left _ (complete_below chain fin maxV s hi h2 hall n v hnl hcn hv)
        · have := hskip n (by omega) hn
          rw [hcn] at this
          exact absurd (by simpa using this) hv

theorem stepN_inv2 (chain : List Nat) (fin maxV : Nat) (hcl : ∀ v ∈ chain, v ≤ maxV) : ∀ (k : Nat) (s : Sub),
    SubInv chain fin s → SubInv2 chain maxV s → SubInv2 chain maxV (stepN chain fin k s) := by
  intro k
  induction k with
  | zero => intro s _ h2; exact h2
  | succ k ih =>
    intro s hi h2
    unfold stepN
    cases h : stepOnce chain fin s with
    | none => exact h2
    | some s' => exact ih s' (stepOnce_inv chain fin s s' hi h) (stepOnce_inv2 chain fin maxV s s' hi h2 hcl h)

/-- a detection pass leaves the store alone or cuts it at a block number -/
theorem detectLoop_store (chain : List Nat) (fin : Nat) : ∀ (ts : List Blk) (s : Sub),
    (detectLoop chain fin ts s).1.store = s.store ∨
    ∃ m, (detectLoop chain fin ts s).1.store = s.store.filter (fun x => decide (x.1 < m)) := by
  intro ts
  induction ts with
  | nil => intro s; exact Or.inl rfl
  | cons t rest ih =>
    intro s
    unfold detectLoop
    cases canon chain t.1 with
    | none => exact Or.inl rfl
    | some v =>
      simp only
      split
      · split
        · exact ih _
        · exact ih _
      · exact Or.inr ⟨t.1, rfl⟩

theorem subInv2_cut (chain : List Nat) (maxV : Nat) (s s' : Sub) (h2 : SubInv2 chain maxV s)
    (h : s'.store = s.store ∨ ∃ m, s'.store = s.store.filter (fun x => decide (x.1 < m))) : SubInv2 chain maxV s' := by
  rcases h with h | ⟨m, h⟩
  · exact ⟨by rw [h]; exact h2.nz, by rw [h]; exact h2.le, by rw [h]; exact h2.gap⟩
  · have hm : ∀ x, x ∈ s'.store ↔ x ∈ s.store ∧ x.1 < m := by
      intro x; rw [h, List.mem_filter]; simp
    refine ⟨fun b hb => h2.nz b ((hm b).mp hb).1, fun b hb => h2.le b ((hm b).mp hb).1, ?_⟩
    intro b hb hbelow n v hn hcn hv
    obtain ⟨hb0, hbm⟩ := (hm b).mp hb
    have := h2.gap b hb0 (fun x hx hle => hbelow x ((hm x).mpr ⟨hx, by omega⟩) hle) n v hn hcn hv
    exact (hm _).mpr ⟨this, by simp only; omega⟩

theorem subInv2_chain (chain chain' : List Nat) (maxV maxV' : Nat) (s : Sub) (h2 : SubInv2 chain maxV s)
    (hm : maxV ≤ maxV')
    (hcan : ∀ b ∈ s.store, Canon chain' b → Canon chain b ∧ ∀ n v, n < b.1 → canon chain' n = some v → canon chain n = some v) :
    SubInv2 chain' maxV' s := by
  refine ⟨h2.nz, fun b hb => Nat.le_trans (h2.le b hb) hm, ?_⟩
  intro b hb hbelow n v hn hcn hv
  have hbc := hcan b hb (hbelow b hb (Nat.le_refl _))
  exact h2.gap b hb (fun x hx hle => (hcan x hx (hbelow x hx hle)).1) n v hn (hbc.2 n v hn hcn) hv

theorem step_inv2 (s : Sys) (hi : SysInv s) (h2 : SysInv2 s) (op : Op) (hop : OpOK s op) : SysInv2 (step s op) := by
  obtain ⟨ha, hb⟩ := hi
  obtain ⟨hcl, ha2, hb2⟩ := h2
  cases op with
  | blk v =>
    have hfresh : v = 0 ∨ s.maxV < v := hop
    have key : ∀ (u : Sub), SubInv2 s.chain s.maxV u → SubInv2 (s.chain ++ [v]) (max s.maxV v) u := by
      intro u hu
      apply subInv2_chain _ _ _ _ _ hu (Nat.le_max_left _ _)
      intro b hb hc
      unfold Canon at hc
      rcases canon_append_cases _ _ _ _ hc with ⟨hle, hc'⟩ | ⟨_, hv⟩
      · refine ⟨hc', fun n w hn hcn => ?_⟩
        rw [canon_append _ _ _ (by omega)] at hcn; exact hcn
      · -- the new block cannot be one the store already holds: its version is fresh (or it has no events)
        have h1 := hu.nz b hb
        have h3 := hu.le b hb
        omega
    refine ⟨?_, key _ ha2, key _ hb2⟩
    intro w hw
    simp only [step] at hw ⊢
    rcases List.mem_append.mp hw with hw | hw
    · exact Nat.le_trans (hcl w hw) (Nat.le_max_left _ _)
    · rw [List.mem_singleton.mp hw]; exact Nat.le_max_right _ _
  | reorg k =>
    have key : ∀ (u : Sub), SubInv2 s.chain s.maxV u → SubInv2 (s.chain.take (k - 1)) s.maxV u := by
      intro u hu
      apply subInv2_chain _ _ _ _ _ hu (Nat.le_refl _)
      intro b hb hc
      unfold Canon at hc
      exact ⟨(canon_take_some _ _ _ _ hc).2, fun n w _ hcn => (canon_take_some _ _ _ _ hcn).2⟩
    exact ⟨fun w hw => hcl w (List.mem_of_mem_take hw), key _ ha2, key _ hb2⟩
  | fin f => exact ⟨hcl, ha2, hb2⟩
  | stepA n => exact ⟨hcl, stepN_inv2 _ _ _ hcl n _ ha ha2, hb2⟩
  | stepB n => exact ⟨hcl, ha2, stepN_inv2 _ _ _ hcl n _ hb hb2⟩
  | detect =>
    exact ⟨hcl, subInv2_cut _ _ _ _ ha2 (detectLoop_store _ _ _ _), subInv2_cut _ _ _ _ hb2 (detectLoop_store _ _ _ _)⟩
  | detectCrash =>
    exact ⟨hcl, subInv2_cut _ _ _ _ ha2 (Or.inl (storeCrash _ _ _ _)), subInv2_cut _ _ _ _ hb2 (Or.inl (storeCrash _ _ _ _))⟩
  | restart => exact ⟨hcl, subInv2_cut _ _ _ _ ha2 (Or.inl rfl), subInv2_cut _ _ _ _ hb2 (Or.inl rfl)⟩

theorem run_inv2 : ∀ (ops : List Op) (s : Sys), SysInv s → SysInv2 s → OpsOK s ops → SysInv2 (run s ops) := by
  intro ops
  induction ops with
  | nil => intro s _ h2 _; exact h2
  | cons op rest ih =>
    intro s hi h2 hok
    unfold run
    simp only [List.foldl_cons]
    exact ih _ (step_inv s hi op hok.1) (step_inv2 s hi h2 op hok.1) hok.2

theorem init_inv2 : SysInv2 {} := by
  refine ⟨fun v hv => by simp at hv, ?_, ?_⟩ <;>
    exact ⟨fun b hb => by simp at hb, fun b hb => by simp at hb, fun b hb => by simp at hb⟩

theorem reachable_inv2 (s : Sys) (h : Reachable s) : SysInv2 s := by
  obtain ⟨ops, hok, e⟩ := h
  rw [e]; exact run_inv2 ops {} init_inv init_inv2 hok

/-! ### convergence once the chain stops changing -/

theorem detectLoop_no_err (chain : List Nat) (fin : Nat) : ∀ (ts : List Blk) (s : Sub),
    (∀ t ∈ ts, 1 ≤ t.1 ∧ t.1 ≤ chain.length) → (detectLoop chain fin ts s).2 ≠ .err := by
  intro ts
  induction ts with
  | nil => intro s _; simp [detectLoop]
  | cons t rest ih =>
    intro s h
    unfold detectLoop
    have ht := h t (List.mem_cons_self ..)
    have : ∃ v, canon chain t.1 = some v := by
      unfold canon
      rw [if_neg (by omega)]
      exact ⟨chain[t.1 - 1]'(by omega), List.getElem?_eq_getElem (by omega)⟩
    obtain ⟨v, hv⟩ := this
    rw [hv]
    simp only
    split
    · exact ih _ (fun x hx => h x (List.mem_cons_of_mem _ hx))
    · simp

theorem stepOnce_canon (chain : List Nat) (fin : Nat) (s s' : Sub) (hall : ∀ b ∈ s.store, Canon chain b)
    (h : stepOnce chain fin s = some s') :
    (∀ b ∈ s'.store, Canon chain b) ∧ lastNum s.store < lastNum s'.store := by
  unfold stepOnce at h
  cases hc : nextDeliv chain (lastNum s.store + 1) with
  | none => rw [hc] at h; cases h
  | some b =>
    rw [hc] at h
    simp only [Option.some.injEq] at h
    subst h
    obtain ⟨hge, hcan, _, _⟩ := nextDeliv_some chain _ b (by omega) hc
    refine ⟨?_, by simp only [lastNum_concat]; omega⟩
    intro x hx
    rcases List.mem_append.mp hx with hx | hx
    · exact hall x hx
    · rw [List.mem_singleton.mp hx]; exact hcan

theorem stepN_converges (chain : List Nat) (fin maxV : Nat) (hcl : ∀ v ∈ chain, v ≤ maxV) : ∀ (k : Nat) (s : Sub),
    SubInv chain fin s → SubInv2 chain maxV s →
    (∀ b ∈ s.store, Canon chain b) → chain.length ≤ lastNum s.store + k →
    (∀ b ∈ (stepN chain fin k s).store, Canon chain b) ∧
    (∀ n v, canon chain n = some v → v ≠ 0 → (n, v) ∈ (stepN chain fin k s).store) := by
  intro k
  induction k with
  | zero =>
    intro s hi h2 hall hk
    refine ⟨hall, fun n v hc hv => ?_⟩
    simp only [stepN]
    exact complete_below chain fin maxV s hi h2 hall n v (by have := (canon_some_le _ _ _ hc).2; omega) hc hv
  | succ k ih =>
    intro s hi h2 hall hk
    unfold stepN
    cases h : stepOnce chain fin s with
    | none =>
      -- nothing left to deliver: no block above the store's last one has events
      simp only
      refine ⟨hall, fun n v hc hv => ?_⟩
      unfold stepOnce at h
      cases hd : nextDeliv chain (lastNum s.store + 1) with
      | some b => rw [hd] at h; cases h
      | none =>
        by_cases hn : n ≤ lastNum s.store
        · exact complete_below chain fin maxV s hi h2 hall n v hn hc hv
        · exact absurd (nextDeliv_none chain _ (by omega) hd n v (by omega) hc) hv
    | some s' =>
      simp only
      obtain ⟨hall', hlt⟩ := stepOnce_canon chain fin s s' hall h
      exact ih s' (stepOnce_inv chain fin s s' hi h) (stepOnce_inv2 chain fin maxV s s' hi h2 hcl h) hall' (by omega)

/-- **convergence**: once the chain has stopped changing (and is at least as long as everything the detector tracks), one
    detection pass followed by syncing to the tip leaves the syncer's store equal to the canonical chain's blocks with
    events: every stored block is the chain's block of that number, every block with events that the chain has is stored,
    in ascending order. The tracked list may be sparse (blocks without events are neither delivered nor tracked). -/
theorem C06_converges (chain : List Nat) (fin maxV : Nat) (s : Sub) (hi : SubInv chain fin s)
    (hi2 : SubInv2 chain maxV s) (hcl : ∀ v ∈ chain, v ≤ maxV)
    (hlen : ∀ t ∈ s.tracked, t.1 ≤ chain.length) (k : Nat) (hk : chain.length ≤ k) :
    let s' := stepN chain fin k (detectSub chain fin s).1
    (∀ b ∈ s'.store, Canon chain b) ∧ (∀ n v, canon chain n = some v → v ≠ 0 → (n, v) ∈ s'.store) ∧
    s'.store.Pairwise (fun x y => x.1 < y.1) := by
  have hne : (detectSub chain fin s).2 ≠ .err := by
    unfold detectSub
    apply detectLoop_no_err
    intro t ht
    exact ⟨hi.pos t (hi.trackedStored t ht), hlen t ht⟩
  have hp := detectSub_spec chain fin s hi
  have hclean := hp.clean hne
  have hp2 : SubInv2 chain maxV (detectSub chain fin s).1 := subInv2_cut _ _ _ _ hi2 (detectLoop_store _ _ _ _)
  obtain ⟨c1, c2⟩ := stepN_converges chain fin maxV hcl k _ hp.inv hp2 hclean (by omega)
  exact ⟨c1, c2, (stepN_inv chain fin k _ hp.inv).sortedS⟩

/-- the same for every state some admissible history leads to -/
theorem C06_converges_reachable (s : Sys) (h : Reachable s) (hlen : ∀ t ∈ s.a.tracked, t.1 ≤ s.chain.length) :
    let a' := stepN s.chain s.fin s.chain.length (detectSub s.chain s.fin s.a).1
    (∀ b ∈ a'.store, Canon s.chain b) ∧ (∀ n v, canon s.chain n = some v → v ≠ 0 → (n, v) ∈ a'.store) :=
  have r := C06_converges s.chain s.fin s.maxV s.a (reachable_inv s h).1 (reachable_inv2 s h).2.1 (reachable_inv2 s h).1
    hlen s.chain.length (Nat.le_refl _)
  ⟨r.1, r.2.1⟩

/-! ### non-vacuity: a fork two blocks deep over a sparse store, detected and resolved -/

/-- blocks 1 and 3 have events, block 2 has none; the fork from block 2 on has events in blocks 2 and 4 and none in 3 -/
def exOps : List Op := [.blk 1, .blk 0, .blk 2, .fin 1, .stepA 3, .reorg 2, .blk 3, .blk 0, .blk 4, .stepA 1, .detect, .stepA 9]

example : OpsOK {} exOps := by
  simp [exOps, OpsOK, OpOK, step]
example : (run {} (exOps.take 10)).a.store = [(1, 1), (3, 2), (4, 4)] ∧ (run {} (exOps.take 10)).a.tracked = [(3, 2), (4, 4)] := by
  decide
example : (run {} (exOps.take 11)).a.store = [(1, 1)] := by decide
example : (run {} exOps).a.store = [(1, 1), (2, 3), (4, 4)] ∧ (run {} exOps).chain = [1, 3, 0, 4] := by decide


/-- the order of the detector's steps after a hash mismatch that the model (and `C06_stopped_during_reorg`) assumes: the
    tracked range is dropped only after the subscriber has acknowledged the rewind (regenerated from /repo on every run) -/
theorem C06_code_facts :
    Gen.CertFacts.reorgSteps = ["insertReorgEvent", "notifySubscriber", "removeTrackedBlockRange", "removeRange"] := by decide

/-- the driver's side of the same contract (`stepOnce`, `detectLoop`): a non-finalized block is tracked BEFORE it is
    processed; on a reorg the downloader is stopped, the store rewound, and only then the detector is acknowledged -/
theorem C06_driver_code_facts :
    Gen.SyncFacts.newBlockSteps = ["AddBlockToTrack", "ProcessBlock"] ∧
    Gen.SyncFacts.trackCond = ["!b.IsFinalizedBlock"] ∧
    Gen.SyncFacts.handleReorgSteps = ["cancel", "Reorg", "send:d.reorgSub.ReorgProcessed"] ∧
    -- a block is reported as finalized (and then not tracked) only on the strength of a finalized pointer sampled BEFORE its
    -- header was checked; and no store turns a failed rewind into a success (the driver acknowledges a reorg on nil)
    Gen.SyncFacts.downloadLoopOrder.take 2 = ["GetLastFinalizedBlock", "GetEventsByBlockRange"] ∧
    Gen.SyncFacts.errToNil_evmDriver = [] ∧
    Gen.SyncFacts.errToNil_gerProcessor = ["GetLastProcessedBlock:?"] ∧
    Gen.SyncFacts.errToNil_l1infoProcessor = ["getLastProcessedBlockWithTx:row.Scan"] ∧
    Gen.SyncFacts.errToNil_bridgeProcessor = ["GetBridges:?", "GetBridgesPaged:?", "GetClaims:?", "GetClaimsPaged:?",
      "GetLegacyTokenMigrations:?", "fetchTokenMappings:?", "getLastProcessedBlockWithTx:row.Scan"] := by decide

/-! ### F5 — the statement at full strength (any interleaving of detector and drivers) is FALSE of the code -/

/-- on a tracked list sorted by number the two halves, run back to back, are the sequential pass -/
theorem lastNum_cons (t : Blk) (rest : List Blk) (h : rest ≠ []) : lastNum (t :: rest) = lastNum rest := by
  unfold lastNum
  cases rest with
  | nil => exact absurd rfl h
  | cons a r => simp [List.getLast?_cons_cons]

theorem detect_is_notify_then_finish (chain : List Nat) (fin : Nat) (to : Nat) :
    ∀ (ts : List Blk) (s : Sub), (ts ≠ [] → to = lastNum ts) → (∀ x ∈ s.tracked, x.1 ≤ to) →
      detectFinish (detectNotifyLoop chain fin to ts s).1 (detectNotifyLoop chain fin to ts s).2 = (detectLoop chain fin ts s).1 := by
  intro ts
  induction ts with
  | nil => intro s _ _; rfl
  | cons t rest ih =>
    intro s hlast hto
    have hto' : to = lastNum (t :: rest) := hlast (by simp)
    unfold detectNotifyLoop detectLoop
    cases hc : canon chain t.1 with
    | none => rfl
    | some v =>
      simp only
      by_cases hv : v = t.2
      · rw [if_pos hv, if_pos hv]
        apply ih
        · intro hr; rw [hto', lastNum_cons t rest hr]
        · intro x hx
          split at hx
          · exact hto x (List.mem_filter.mp hx).1
          · exact hto x hx
      · rw [if_neg hv, if_neg hv]
        simp only [detectFinish]
        congr 1
        · apply List.filter_congr
          intro x hx
          have := hto x hx
          simp only [decide_eq_decide]
          omega
        · rw [hto']

/-- **F5 on the model**: blocks 1..3 processed and tracked; blocks 2.. are replaced; the detector notifies, the driver
    rewinds and — before the detector removes the old range — processes and tracks block 2 of the new fork; the removal then
    wipes that entry. Result: block 2 (version 21) is stored, not final, and NOT tracked (`C06_tracked_or_final` fails);
    when the chain replaces it once more, a full sequential detection pass sees nothing and the subscriber keeps the
    replaced block (`C06_detected` fails). -/
theorem C06_race_false :
    let chain0 := [10, 20, 30]
    let s0 := stepN chain0 0 3 {}                       -- store = tracked = [(1,10),(2,20),(3,30)]
    let chain1 := [10, 21, 31]                           -- reorg at block 2, new fork
    let n := detectNotify chain1 0 s0                    -- notified, driver rewound; range (2,3) not yet removed
    let s1 := stepN chain1 0 1 n.1                       -- the resumed driver handles block 2 of the new fork
    let s2 := detectFinish s1 n.2                        -- now the detector removes [2,3]
    let chain2 := [10, 22]                               -- block 2 is replaced once more
    let s3 := (detectSub chain2 0 s2).1                  -- a complete detection pass
    s2.store = [(1, 10), (2, 21)] ∧ s2.tracked = [(1, 10)] ∧
    (detectSub chain2 0 s2).2 = .none ∧ (2, 21) ∈ s3.store ∧ canon chain2 2 = some 22 := by
  decide

/-- the same schedule with the two halves back to back (what the sequential theorems assume) keeps the entry -/
example :
    let s0 := stepN [10, 20, 30] 0 3 {}
    let s1 := stepN [10, 21, 31] 0 1 (detectSub [10, 21, 31] 0 s0).1
    s1.tracked = [(1, 10), (2, 21)] := by decide


/-- **refinement**: in every state the sequential theorems speak about, the sequential detection pass is exactly
    "notify, then remove the range" with nothing in between -/
theorem detectSub_is_notify_then_finish (chain : List Nat) (fin : Nat) (s : Sub) (hi : SubInv chain fin s) :
    detectFinish (detectNotify chain fin s).1 (detectNotify chain fin s).2 = (detectSub chain fin s).1 :=
  detect_is_notify_then_finish chain fin (lastNum s.tracked) s.tracked s (fun _ => rfl) (le_lastNum_of_sorted _ hi.sortedT)


end Aggkit.ReorgSync
