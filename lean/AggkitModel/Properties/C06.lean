import AggkitModel.Proofs.ReorgSync
import AggkitModel.Generated.CertFacts
import AggkitModel.Generated.SyncFacts
/-
C06 — reorgs of processed blocks are detected; the node converges to the canonical chain.
Property theorems only. Quantifiers: every chain history (new blocks, reorgs at any depth above the finalized block, new
forks shorter or longer than the old one, successive reorgs, finality moving at any time), two subscribers progressing at
any relative speed, detection passes and restarts at any moment, any length.
The schedule is sequential (each operation completes before the next starts); see the model file and known finding F5.
-/
namespace Aggkit.ReorgSync

def SysInv (s : Sys) : Prop := SubInv s.chain s.fin s.a ∧ SubInv s.chain s.fin s.b

/-- admissible operations: finalized blocks exist and are never replaced; finality only moves forward -/
def OpOK (s : Sys) : Op → Prop
  | .reorg k => s.fin < k
  | .fin f => s.fin ≤ f ∧ f ≤ s.chain.length
  | _ => True

theorem subInv_chain (chain chain' : List Nat) (fin fin' : Nat) (s : Sub) (hi : SubInv chain fin s)
    (h : ∀ b : Blk, Canon chain b → b.1 ≤ fin → Canon chain' b ∧ b.1 ≤ fin') : SubInv chain' fin' s := by
  refine ⟨?_, hi.trackedStored, hi.contiguous, hi.sortedT⟩
  intro b hb
  rcases hi.covered b hb with h1 | h1
  · exact Or.inl h1
  · exact Or.inr (h b h1.1 h1.2)

theorem step_inv (s : Sys) (hi : SysInv s) (op : Op) (hop : OpOK s op) : SysInv (step s op) := by
  obtain ⟨ha, hb⟩ := hi
  cases op with
  | blk v =>
    have key : ∀ b : Blk, Canon s.chain b → b.1 ≤ s.fin → Canon (s.chain ++ [v]) b ∧ b.1 ≤ s.fin := by
      intro b hc hf
      unfold Canon at hc ⊢
      exact ⟨by rw [canon_append _ _ _ (canon_some_le _ _ _ hc).2]; exact hc, hf⟩
    exact ⟨subInv_chain _ _ _ _ _ ha key, subInv_chain _ _ _ _ _ hb key⟩
  | reorg k =>
    have hk : s.fin < k := hop
    have key : ∀ b : Blk, Canon s.chain b → b.1 ≤ s.fin → Canon (s.chain.take (k - 1)) b ∧ b.1 ≤ s.fin := by
      intro b hc hf
      unfold Canon at hc ⊢
      exact ⟨by rw [canon_take _ _ _ (by omega)]; exact hc, hf⟩
    exact ⟨subInv_chain _ _ _ _ _ ha key, subInv_chain _ _ _ _ _ hb key⟩
  | fin f =>
    have hf : s.fin ≤ f := hop.1
    have key : ∀ b : Blk, Canon s.chain b → b.1 ≤ s.fin → Canon s.chain b ∧ b.1 ≤ f := fun b hc h => ⟨hc, by omega⟩
    exact ⟨subInv_chain _ _ _ _ _ ha key, subInv_chain _ _ _ _ _ hb key⟩
  | stepA n => exact ⟨stepN_inv _ _ n _ ha, hb⟩
  | stepB n => exact ⟨ha, stepN_inv _ _ n _ hb⟩
  | detect => exact ⟨(detectSub_spec _ _ _ ha).inv, (detectSub_spec _ _ _ hb).inv⟩
  | detectCrash => exact ⟨detectCrashSub_inv _ _ _ ha, detectCrashSub_inv _ _ _ hb⟩
  | restart => exact ⟨ha, hb⟩

theorem storeCrash (chain : List Nat) (fin : Nat) : ∀ (ts : List Blk) (s : Sub),
    (detectLoopCrash chain fin ts s).store = s.store := by
  intro ts
  induction ts with
  | nil => intro s; rfl
  | cons t rest ih =>
    intro s
    unfold detectLoopCrash
    cases canon chain t.1 with
    | none => rfl
    | some v =>
      simp only
      split
      · rw [ih]; split <;> rfl
      · rfl

/-- admissibility of a whole history, each operation judged in the state it is applied to -/
def OpsOK : Sys → List Op → Prop
  | _, [] => True
  | s, op :: rest => OpOK s op ∧ OpsOK (step s op) rest

theorem run_inv : ∀ (ops : List Op) (s : Sys), SysInv s → OpsOK s ops → SysInv (run s ops) := by
  intro ops
  induction ops with
  | nil => intro s hi _; exact hi
  | cons op rest ih =>
    intro s hi hok
    unfold run
    simp only [List.foldl_cons]
    exact ih _ (step_inv s hi op hok.1) hok.2

theorem init_inv : SysInv {} := by
  constructor <;> exact ⟨fun b hb => by simp at hb, fun b hb => by simp at hb, by simp, by simp⟩

/-- a state some admissible history leads to -/
def Reachable (s : Sys) : Prop := ∃ ops, OpsOK {} ops ∧ s = run {} ops

theorem reachable_inv (s : Sys) (h : Reachable s) : SysInv s := by
  obtain ⟨ops, hok, e⟩ := h
  rw [e]; exact run_inv ops {} init_inv hok

/-- **every stored block is accounted for**: in every reachable state each block a syncer has processed is either still
    tracked by the detector with the hash it was processed with, or was delivered as finalized and is on the chain -/
theorem C06_tracked_or_final (s : Sys) (h : Reachable s) :
    (∀ b ∈ s.a.store, b ∈ s.a.tracked ∨ (Canon s.chain b ∧ b.1 ≤ s.fin)) ∧
    (∀ b ∈ s.b.store, b ∈ s.b.tracked ∨ (Canon s.chain b ∧ b.1 ≤ s.fin)) :=
  ⟨(reachable_inv s h).1.covered, (reachable_inv s h).2.covered⟩

/-- **detection**: after a detection pass that could fetch the headers it needed, no block that the chain has replaced
    remains in the syncer's store — the syncer has been rewound to at or before the first replaced block it had
    processed; and the rewind point is exactly the first tracked block whose hash differs -/
theorem C06_detected (chain : List Nat) (fin : Nat) (s : Sub) (hi : SubInv chain fin s)
    (hne : (detectSub chain fin s).2 ≠ .err) :
    (∀ b ∈ (detectSub chain fin s).1.store, Canon chain b) ∧
    (∀ n, (detectSub chain fin s).2 = .rewind n →
      (∃ b ∈ s.tracked, b.1 = n ∧ ¬ Canon chain b) ∧ (∀ b ∈ s.tracked, b.1 < n → Canon chain b) ∧
      (detectSub chain fin s).1.store = s.store.filter (fun x => decide (x.1 < n))) :=
  ⟨(detectSub_spec chain fin s hi).clean hne, (detectSub_spec chain fin s hi).first⟩

/-- **no spurious rewind**: if nothing the syncer processed has been replaced, a detection pass leaves its store alone -/
theorem C06_no_spurious_rewind (chain : List Nat) (fin : Nat) (s : Sub) (hi : SubInv chain fin s)
    (hall : ∀ b ∈ s.store, Canon chain b) :
    (detectSub chain fin s).2 = .none ∧ (detectSub chain fin s).1.store = s.store :=
  (detectSub_spec chain fin s hi).quiet (fun b hb => hall b (hi.trackedStored b hb))

/-- restarting does not change what is stored or tracked (the tracked headers are reloaded from the database) -/
theorem C06_restart (s : Sys) : step s .restart = s := rfl

/-- **stopped during the reorg**: if the node is stopped while a syncer is rewinding (the rewind not committed), the stale
    blocks stay in the store but also stay tracked, so the invariant behind `C06_detected` survives the restart: the next
    detection pass rewinds again -/
theorem C06_stopped_during_reorg (s : Sys) (h : Reachable s) :
    SysInv (step s .detectCrash) ∧ (step s .detectCrash).a.store = s.a.store ∧ (step s .detectCrash).b.store = s.b.store := by
  have hi := reachable_inv s h
  refine ⟨step_inv s hi .detectCrash trivial, ?_, ?_⟩
  · exact (storeCrash s.chain s.fin s.a.tracked s.a)
  · exact (storeCrash s.chain s.fin s.b.tracked s.b)

/-! ### convergence once the chain stops changing -/

theorem detectLoop_no_err (chain : List Nat) (fin : Nat) : ∀ (ts : List Blk) (s : Sub),
    (∀ t ∈ ts, 1 ≤ t.1 ∧ t.1 ≤ chain.length) → (detectLoop chain fin ts s).2 ≠ .err := by
  intro ts
  induction ts with
  | nil => intro s _; simp [detectLoop]
  | cons t rest ih =>
    intro s h
    unfold detectLoop
    have ht := h t (List.mem_cons_self ..)
    have : ∃ v, canon chain t.1 = some v := by
      unfold canon
      rw [if_neg (by omega)]
      exact ⟨chain[t.1 - 1]'(by omega), List.getElem?_eq_getElem (by omega)⟩
    obtain ⟨v, hv⟩ := this
    rw [hv]
    simp only
    split
    · exact ih _ (fun x hx => h x (List.mem_cons_of_mem _ hx))
    · simp

theorem stepOnce_canon (chain : List Nat) (fin : Nat) (s s' : Sub) (hall : ∀ b ∈ s.store, Canon chain b)
    (h : stepOnce chain fin s = some s') : (∀ b ∈ s'.store, Canon chain b) ∧ s'.store.length = s.store.length + 1 := by
  unfold stepOnce at h
  simp only at h
  cases hc : canon chain (lastNum s.store + 1) with
  | none => rw [hc] at h; cases h
  | some v =>
    rw [hc] at h
    simp only [Option.some.injEq] at h
    subst h
    refine ⟨?_, by simp⟩
    intro b hb
    rcases List.mem_append.mp hb with hb | hb
    · exact hall b hb
    · rw [List.mem_singleton.mp hb]; exact hc

theorem stepN_converges (chain : List Nat) (fin : Nat) : ∀ (k : Nat) (s : Sub), SubInv chain fin s →
    (∀ b ∈ s.store, Canon chain b) → s.store.length ≤ chain.length → chain.length ≤ s.store.length + k →
    (∀ b ∈ (stepN chain fin k s).store, Canon chain b) ∧ (stepN chain fin k s).store.length = chain.length := by
  intro k
  induction k with
  | zero => intro s _ hall h1 h2; exact ⟨hall, by simp [stepN]; omega⟩
  | succ k ih =>
    intro s hi hall h1 h2
    unfold stepN
    cases h : stepOnce chain fin s with
    | none =>
      -- nothing left to deliver: the store already reaches the tip
      simp only
      refine ⟨hall, ?_⟩
      unfold stepOnce at h
      simp only at h
      rw [lastNum_contig s.store hi.contiguous] at h
      cases hc : canon chain (s.store.length + 1) with
      | some v => rw [hc] at h; cases h
      | none =>
        unfold canon at hc
        simp only [Nat.add_one_ne_zero, if_false, Nat.add_sub_cancel] at hc
        have := List.getElem?_eq_none_iff.mp hc
        omega
    | some s' =>
      simp only
      obtain ⟨hall', hlen⟩ := stepOnce_canon chain fin s s' hall h
      have hle : s'.store.length ≤ chain.length := by
        rw [hlen]
        unfold stepOnce at h
        simp only at h
        rw [lastNum_contig s.store hi.contiguous] at h
        cases hc : canon chain (s.store.length + 1) with
        | none => rw [hc] at h; cases h
        | some v => exact (canon_some_le _ _ _ hc).2
      exact ih s' (stepOnce_inv chain fin s s' hi h) hall' hle (by omega)

/-- **convergence**: once the chain has stopped changing (and is at least as long as everything the detector tracks), one
    detection pass followed by syncing to the tip leaves the syncer's store equal to the canonical chain: every stored
    block is the chain's block of that number, and the store holds blocks 1 … tip without gap -/
theorem C06_converges (chain : List Nat) (fin : Nat) (s : Sub) (hi : SubInv chain fin s)
    (hlen : ∀ t ∈ s.tracked, t.1 ≤ chain.length) (k : Nat) (hk : chain.length ≤ k) :
    let s' := stepN chain fin k (detectSub chain fin s).1
    (∀ b ∈ s'.store, Canon chain b) ∧ s'.store.map (·.1) = List.range' 1 chain.length := by
  have hne : (detectSub chain fin s).2 ≠ .err := by
    unfold detectSub
    apply detectLoop_no_err
    intro t ht
    exact ⟨(mem_num_le s.store hi.contiguous t (hi.trackedStored t ht)).1, hlen t ht⟩
  have hp := detectSub_spec chain fin s hi
  have hclean := hp.clean hne
  have hle : (detectSub chain fin s).1.store.length ≤ chain.length := by
    cases hg : (detectSub chain fin s).1.store.getLast? with
    | none =>
      have : (detectSub chain fin s).1.store = [] := by simpa using hg
      rw [this]; simp
    | some b =>
      have hb := List.mem_of_getLast? hg
      have h1 := (canon_some_le _ _ _ (hclean b hb)).2
      have h2 := lastNum_contig _ hp.inv.contiguous
      unfold lastNum at h2; rw [hg] at h2; simp only at h2
      omega
  obtain ⟨c1, c2⟩ := stepN_converges chain fin k _ hp.inv hclean hle (by omega)
  refine ⟨c1, ?_⟩
  have := (stepN_inv chain fin k _ hp.inv).contiguous
  rw [this, c2]

/-! ### non-vacuity: a fork two blocks deep, detected and resolved -/

example : OpsOK {} [.blk 1, .blk 1, .blk 1, .fin 1, .stepA 3, .reorg 2, .blk 2, .blk 2, .blk 1, .stepA 1, .detect, .stepA 9] := by
  simp [OpsOK, OpOK, step, stepN, stepOnce, canon, lastNum, trackAdd, detectSub, detectLoop]
example : (run {} [.blk 1, .blk 1, .blk 1, .fin 1, .stepA 3, .reorg 2, .blk 2, .blk 2, .blk 1, .stepA 1]).a.store
    = [(1, 1), (2, 1), (3, 1), (4, 1)] := by decide
example : (run {} [.blk 1, .blk 1, .blk 1, .fin 1, .stepA 3, .reorg 2, .blk 2, .blk 2, .blk 1, .stepA 1, .detect, .stepA 9]).a.store
    = [(1, 1), (2, 2), (3, 2), (4, 1)] := by decide


/-- the order of the detector's steps after a hash mismatch that the model (and `C06_stopped_during_reorg`) assumes: the
    tracked range is dropped only after the subscriber has acknowledged the rewind (regenerated from /repo on every run) -/
theorem C06_code_facts :
    Gen.CertFacts.reorgSteps = ["insertReorgEvent", "notifySubscriber", "removeTrackedBlockRange", "removeRange"] := by decide

/-- the driver's side of the same contract (`stepOnce`, `detectLoop`): a non-finalized block is tracked BEFORE it is
    processed; on a reorg the downloader is stopped, the store rewound, and only then the detector is acknowledged -/
theorem C06_driver_code_facts :
    Gen.SyncFacts.newBlockSteps = ["AddBlockToTrack", "ProcessBlock"] ∧
    Gen.SyncFacts.trackCond = ["!b.IsFinalizedBlock"] ∧
    Gen.SyncFacts.handleReorgSteps = ["cancel", "Reorg", "send:d.reorgSub.ReorgProcessed"] ∧
    -- a block is reported as finalized (and then not tracked) only on the strength of a finalized pointer sampled BEFORE its
    -- header was checked; and no store turns a failed rewind into a success (the driver acknowledges a reorg on nil)
    Gen.SyncFacts.downloadLoopOrder.take 2 = ["GetLastFinalizedBlock", "GetEventsByBlockRange"] ∧
    Gen.SyncFacts.errToNil_evmDriver = [] ∧
    Gen.SyncFacts.errToNil_gerProcessor = ["GetLastProcessedBlock:?"] ∧
    Gen.SyncFacts.errToNil_l1infoProcessor = ["getLastProcessedBlockWithTx:row.Scan"] ∧
    Gen.SyncFacts.errToNil_bridgeProcessor = ["GetBridges:?", "GetBridgesPaged:?", "GetClaims:?", "GetClaimsPaged:?",
      "GetLegacyTokenMigrations:?", "fetchTokenMappings:?", "getLastProcessedBlockWithTx:row.Scan"] := by decide

/-! ### F5 — the statement at full strength (any interleaving of detector and drivers) is FALSE of the code -/

/-- on a tracked list sorted by number the two halves, run back to back, are the sequential pass -/
theorem detect_is_notify_then_finish (chain : List Nat) (fin : Nat) (to : Nat) :
    ∀ (ts : List Blk) (s : Sub), (∀ x ∈ s.tracked, x.1 ≤ to) →
      detectFinish (detectNotifyLoop chain fin to ts s).1 (detectNotifyLoop chain fin to ts s).2 = (detectLoop chain fin ts s).1 := by
  intro ts
  induction ts with
  | nil => intro s _; rfl
  | cons t rest ih =>
    intro s hto
    unfold detectNotifyLoop detectLoop
    cases hc : canon chain t.1 with
    | none => rfl
    | some v =>
      simp only
      by_cases hv : v = t.2
      · rw [if_pos hv, if_pos hv]
        apply ih
        intro x hx
        split at hx
        · exact hto x (List.mem_filter.mp hx).1
        · exact hto x hx
      · rw [if_neg hv, if_neg hv]
        simp only [detectFinish]
        congr 1
        apply List.filter_congr
        intro x hx
        have := hto x hx
        simp only [decide_eq_decide]
        omega

/-- **F5 on the model**: blocks 1..3 processed and tracked; blocks 2.. are replaced; the detector notifies, the driver
    rewinds and — before the detector removes the old range — processes and tracks block 2 of the new fork; the removal then
    wipes that entry. Result: block 2 (version 21) is stored, not final, and NOT tracked (`C06_tracked_or_final` fails);
    when the chain replaces it once more, a full sequential detection pass sees nothing and the subscriber keeps the
    replaced block (`C06_detected` fails). -/
theorem C06_race_false :
    let chain0 := [10, 20, 30]
    let s0 := stepN chain0 0 3 {}                       -- store = tracked = [(1,10),(2,20),(3,30)]
    let chain1 := [10, 21, 31]                           -- reorg at block 2, new fork
    let n := detectNotify chain1 0 s0                    -- notified, driver rewound; range (2,3) not yet removed
    let s1 := stepN chain1 0 1 n.1                       -- the resumed driver handles block 2 of the new fork
    let s2 := detectFinish s1 n.2                        -- now the detector removes [2,3]
    let chain2 := [10, 22]                               -- block 2 is replaced once more
    let s3 := (detectSub chain2 0 s2).1                  -- a complete detection pass
    s2.store = [(1, 10), (2, 21)] ∧ s2.tracked = [(1, 10)] ∧
    (detectSub chain2 0 s2).2 = .none ∧ (2, 21) ∈ s3.store ∧ canon chain2 2 = some 22 := by
  decide

/-- the same schedule with the two halves back to back (what the sequential theorems assume) keeps the entry -/
example :
    let s0 := stepN [10, 20, 30] 0 3 {}
    let s1 := stepN [10, 21, 31] 0 1 (detectSub [10, 21, 31] 0 s0).1
    s1.tracked = [(1, 10), (2, 21)] := by decide


theorem le_lastNum_of_sorted : ∀ (l : List Blk), l.Pairwise (fun x y => x.1 < y.1) → ∀ x ∈ l, x.1 ≤ lastNum l := by
  intro l
  induction l with
  | nil => intro _ x hx; simp at hx
  | cons a rest ih =>
    intro hs x hx
    have hs' := List.pairwise_cons.mp hs
    cases hr : rest with
    | nil =>
      subst hr
      simp at hx; subst hx
      simp [lastNum]
    | cons b rest' =>
      have hl : lastNum (a :: rest) = lastNum rest := by
        unfold lastNum; rw [hr]; simp [List.getLast?_cons_cons]
      rw [← hr, hl]
      rcases List.mem_cons.mp hx with h | h
      · subst h
        have hb : b ∈ rest := by rw [hr]; simp
        have := hs'.1 b hb
        have := ih hs'.2 b hb
        omega
      · exact ih hs'.2 x h

/-- **refinement**: in every state the sequential theorems speak about, the sequential detection pass is exactly
    "notify, then remove the range" with nothing in between -/
theorem detectSub_is_notify_then_finish (chain : List Nat) (fin : Nat) (s : Sub) (hi : SubInv chain fin s) :
    detectFinish (detectNotify chain fin s).1 (detectNotify chain fin s).2 = (detectSub chain fin s).1 :=
  detect_is_notify_then_finish chain fin (lastNum s.tracked) s.tracked s (le_lastNum_of_sorted _ hi.sortedT)


end Aggkit.ReorgSync
