import AggkitModel.Model.GlobalIndex
import AggkitModel.Proofs.Bytes
/-
C19 — global indexes are encoded and decoded consistently everywhere.
Property theorems only (helper lemmas live in Proofs/). All quantifiers are unbounded:
every uint32 pair, both flags, every canonical on-chain value.
-/
namespace Aggkit.GlobalIndex
open Aggkit

private theorem p32 : (256:Nat)^4 = 4294967296 := by decide
private theorem p64 : (256:Nat)^8 = 18446744073709551616 := by decide
private theorem p72 : (256:Nat)^9 = 4722366482869645213696 := by decide

/-- the bridge contract's bit layout: `mainnetFlag·2^64 + rollupIndex·2^32 + leafIndex`
    (the rollup index is not encoded when the mainnet flag is set) -/
theorem C19_layout (m : Bool) (r l : Nat) (hr : r < 2^32) (hl : l < 2^32) :
    generate m r l = (if m then 2^64 else r * 2^32) + l := by
  unfold generate generateBytes
  cases m
  · simp only [Bool.false_eq_true, if_false]
    rw [ofBE_append, ofBE_fillBE, ofBE_fillBE, fillBE_length, p32]
    rw [Nat.mod_eq_of_lt (by omega), Nat.mod_eq_of_lt (by omega)]
  · simp only [if_true]
    have h1 : beBytes 1 = [1] := by decide
    rw [ofBE_append, ofBE_append, ofBE_fillBE, ofBE_fillBE, fillBE_length, fillBE_length, h1, p32]
    rw [Nat.mod_eq_of_lt (show l < 4294967296 by omega)]
    simp [ofBE]

/-- `DecodeGlobalIndex` never panics and returns: flag = "the value is exactly 9 bytes long",
    rollup = bits 32..63, leaf = bits 0..31 — for **every** input, canonical or not. -/
theorem decode_spec (x : Nat) :
    decode x = some (decide ((beBytes x).length = 9), (x / 2^32) % 2^32, x % 2^32) := by
  have hb := isBytes_beBytes x
  have hv := ofBE_beBytes x
  unfold decode
  simp only
  by_cases h0 : (beBytes x).length = 0
  · have hx : x = 0 := by
      have := lt_pow_beBytes_length x; rw [h0] at this; simpa using this
    subst hx; simp [beBytes_zero]
  · simp only [h0, if_false]
    -- leaf part
    have hleaf := (ofBE_take_drop (beBytes x) hb 4).2
    -- rollup part: (bs.drop (l-8)).take 4-ish = (bs.take (l-4)).drop ((l-4)-4)
    have hslice : ((beBytes x).drop ((beBytes x).length - 4 - 4)).take
        ((beBytes x).length - 4 - ((beBytes x).length - 4 - 4)) =
        ((beBytes x).take ((beBytes x).length - 4)).drop (((beBytes x).take ((beBytes x).length - 4)).length - 4) := by
      rw [List.drop_take]; simp
    have hroll := (ofBE_take_drop ((beBytes x).take ((beBytes x).length - 4)) (hb.take _) 4).2
    rw [(ofBE_take_drop (beBytes x) hb 4).1, hv] at hroll
    rw [hv] at hleaf
    rw [hslice]
    have len1 : (((beBytes x).take ((beBytes x).length - 4)).drop
        (((beBytes x).take ((beBytes x).length - 4)).length - 4)).length ≤ 4 := by simp; omega
    have len2 : ((beBytes x).drop ((beBytes x).length - 4)).length ≤ 4 := by simp; omega
    unfold bytesToU32
    simp only [show ¬ (((beBytes x).take ((beBytes x).length - 4)).drop
        (((beBytes x).take ((beBytes x).length - 4)).length - 4)).length > 4 by omega,
      show ¬ ((beBytes x).drop ((beBytes x).length - 4)).length > 4 by omega, if_false]
    rw [hroll, hleaf, p32]

/-- the 9-byte test is the 2^64 bit for every value below 2^72 -/
theorem length_nine_iff (x : Nat) : (beBytes x).length = 9 ↔ (2^64 ≤ x ∧ x < 2^72) := by
  rw [beBytes_length_eq x 9 (by omega)]

/-- compose then decompose returns the same triple (rollup index 0 for mainnet) -/
theorem C19_roundtrip (m : Bool) (r l : Nat) (hr : r < 2^32) (hl : l < 2^32) :
    decode (generate m r l) = some (m, if m then 0 else r, l) := by
  rw [decode_spec, C19_layout m r l hr hl]
  cases m
  · simp only [Bool.false_eq_true, if_false]
    have hn : ¬ (beBytes (r * 2^32 + l)).length = 9 := by
      rw [length_nine_iff]; omega
    simp only [hn, decide_false]
    have a : (r * 2^32 + l) / 2^32 % 2^32 = r := by omega
    have b : (r * 2^32 + l) % 2^32 = l := by omega
    rw [a, b]
  · simp only [if_true]
    have hn : (beBytes (2^64 + l)).length = 9 := by
      rw [length_nine_iff]; omega
    simp only [hn, decide_true]
    have a : (2^64 + l) / 2^32 % 2^32 = 0 := by omega
    have b : (2^64 + l) % 2^32 = l := by omega
    rw [a, b]

/-- every canonical on-chain value survives decode → re-encode unchanged; this is what makes all
    consumers (which re-encode the decoded triple) carry the on-chain value itself -/
theorem C19_canonical (x : Nat) (hc : Canonical x) :
    ∃ m r l, decode x = some (m, r, l) ∧ r < 2^32 ∧ l < 2^32 ∧ generate m r l = x := by
  refine ⟨decide ((beBytes x).length = 9), (x / 2^32) % 2^32, x % 2^32, decode_spec x, ?_, ?_, ?_⟩
  · exact Nat.mod_lt _ (by omega)
  · exact Nat.mod_lt _ (by omega)
  · rw [C19_layout _ _ _ (Nat.mod_lt _ (by omega)) (Nat.mod_lt _ (by omega))]
    rcases hc with h | ⟨h1, h2⟩
    · have hn : ¬ (beBytes x).length = 9 := by rw [length_nine_iff]; omega
      simp only [hn, decide_false, Bool.false_eq_true, if_false]; omega
    · have hn : (beBytes x).length = 9 := by rw [length_nine_iff]; omega
      simp only [hn, decide_true, if_true]; omega

/-- the 32-byte little-endian buffer carries the value (for values that fit 32 bytes) -/
theorem ofLE_bigToLE32 (g : Nat) (hg : g < 2^256) : ofLE (bigToLE32 g) = g := by
  have hlen : (beBytes g).length ≤ 32 := by
    rcases Nat.lt_or_ge 32 (beBytes g).length with h | h
    · exfalso
      rcases Nat.eq_zero_or_pos g with h0 | h0
      · subst h0; simp [beBytes_zero] at h
      · have := pow_beBytes_length_le g (by omega)
        have : (256:Nat)^32 ≤ 256 ^ ((beBytes g).length - 1) := Nat.pow_le_pow_right (by omega) (by omega)
        have e : (256:Nat)^32 = 2^256 := by decide
        omega
    · exact h
  unfold ofLE bigToLE32
  simp only
  rw [List.take_of_length_le (by simpa using hlen)]
  simp only [List.reverse_append, List.reverse_replicate, List.reverse_reverse]
  rw [ofBE_replicate_zero_append, ofBE_beBytes]

/-- the 32-byte big-endian word carries the value -/
theorem ofBE_bigToHash (g : Nat) (hg : g < 2^256) : ofBE (bigToHash g) = g := by
  unfold bigToHash; rw [ofBE_fillBE]
  have e : (256:Nat)^32 = 2^256 := by decide
  rw [e, Nat.mod_eq_of_lt hg]

/-- every place that carries a claim's global index carries the same value: for a canonical
    on-chain value `x` the certificate field decodes `x`, the commitment input and the FEP chunk
    are the 32-byte little-endian encoding of `x`, the wire and prover messages its 32-byte
    big-endian encoding, and the optimistic-mode signed commitment (`optimistichash`) again its 32-byte little-endian
    encoding. -/
theorem C19_consumers (x : Nat) (hc : Canonical x) :
    ∃ c, consumers x = some c ∧
      generate c.certField.1 c.certField.2.1 c.certField.2.2 = x ∧
      ofLE c.hashInput = x ∧ ofLE c.fepChunk = x ∧ ofBE c.wire = x ∧ ofBE c.prover = x ∧ ofLE c.optInput = x ∧
      c.hashInput.length = 32 ∧ c.wire.length = 32 := by
  obtain ⟨m, r, l, hd, _, _, hg⟩ := C19_canonical x hc
  have hx : x < 2^256 := by rcases hc with h | ⟨_, h⟩ <;> omega
  refine ⟨_, by simp only [consumers, hd]; rfl, ?_⟩
  simp only [hg]
  refine ⟨trivial, ofLE_bigToLE32 x hx, ofLE_bigToLE32 x hx, ofBE_bigToHash x hx, ofBE_bigToHash x hx, ofLE_bigToLE32 x hx, ?_, ?_⟩
  · unfold bigToLE32; simp; omega
  · simp [bigToHash]

/-- non-vacuity: concrete canonical values on both sides of the flag, and a round trip at the
    uint32 boundary -/
example : Canonical (2^64 + 7) ∧ Canonical (5 * 2^32 + 7) ∧ ¬ Canonical (2^64 + 2^32) := by
  unfold Canonical; omega
example : decode (generate false (2^32-1) (2^32-1)) = some (false, 2^32-1, 2^32-1) :=
  C19_roundtrip false _ _ (by omega) (by omega)
/-- non-canonical inputs are characterised, not hidden: a mainnet-flagged value with a non-zero
    rollup part decodes to that rollup part (and is then re-encoded *without* it). -/
example : decode (2^64 + 3 * 2^32 + 1) = some (true, 3, 1) := by
  rw [decode_spec]; have : (beBytes (2^64 + 3*2^32 + 1)).length = 9 := by rw [length_nine_iff]; omega
  simp [this]

end Aggkit.GlobalIndex
