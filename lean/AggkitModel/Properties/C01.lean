import AggkitModel.Proofs.TreeHistory
import AggkitModel.Proofs.Contract
set_option linter.unusedSectionVars false
/-
C01 — the synced exit-tree root equals the bridge contract's root at every deposit.
Node side: the tree machine driven by arbitrary well-formed histories (blocks, rollbacks at any point,
restarts, reorgs). Contract side: `DC` (the deposit contract's incremental tree). Both equal the
specification root of the surviving leaves, for every deposit count and every carry pattern.
(The leaf-value half of C01 — byte layout of `Bridge.Hash` — is a correspondence/monitor obligation of
the `bridge-store` scenario; see DESIGN.)
-/
namespace Aggkit
variable {α : Type} [DecidableEq α]

theorem getRootByIndex_spec (H : HashAlg α) (n : Nat) (db : TreeDb α) (ls : List α)
    (hr : RootsOK H n db ls) (i : Nat) (hi : i < ls.length) :
    ∃ r, getRootByIndex db i = some r ∧ r.hash = vroot H n ls (i+1) ∧ r.index = i := by
  obtain ⟨r, h1, h2, h3⟩ := hr.2 i hi
  refine ⟨r, ?_, h2, h3⟩
  unfold getRootByIndex
  rw [List.find?_eq_some_iff_getElem]
  have hil : i < db.roots.length := by rw [hr.1]; exact hi
  refine ⟨by simp [h3], i, hil, ?_, ?_⟩
  · have := List.getElem?_eq_getElem hil
    rw [h1] at this; simp at this; exact this.symm
  · intro j hj
    obtain ⟨r', g1, _, g3⟩ := hr.2 j (by omega)
    have hjl : j < db.roots.length := by omega
    have := List.getElem?_eq_getElem hjl
    rw [g1] at this; simp at this
    rw [← this]; simp [g3]; omega

/-- **C01 (roots)**: after ANY well-formed history, the root the node reports for deposit count `i`
    is the root the contract holds after its `(i+1)`-th deposit (of the surviving chain). -/
theorem C01_root (H : HashAlg α) (hinj : H.Inj) (n : Nat) (ops : List (HiOp α))
    (wf : WFhistory H n [] ops) (s : TM α) (ls : List α)
    (hs : s = runHistory H n (TM.init H n) ops) (hls : ls = (absHistory [] ops).map (·.2)) :
    ∀ i, i < ls.length → i + 1 < 2^n →
      ∃ r, getRootByIndex s.db i = some r ∧
        r.hash = DC.getRoot H n (DC.depositAll H n (DC.empty H n) (ls.take (i+1))) := by
  intro i hi hb
  have inv := runHistory_inv H hinj n ops (TM.init H n) [] (init_inv H n) wf
  rw [← hs] at inv
  have iao := inv.ao
  rw [← hls] at iao
  obtain ⟨r, h1, h2, _⟩ := getRootByIndex_spec H n s.db ls iao.roots i hi
  refine ⟨r, h1, ?_⟩
  rw [h2, vroot_eq_specRoot, contract_root H n (ls.take (i+1)) (by simp; omega)]

/-- the reported roots depend only on the surviving deposits, not on how they were spread over
    blocks, on rolled-back attempts, on restarts or on reorged-away forks -/
theorem C01_partition_irrelevant (H : HashAlg α) (hinj : H.Inj) (n : Nat) (ops1 ops2 : List (HiOp α))
    (wf1 : WFhistory H n [] ops1) (wf2 : WFhistory H n [] ops2)
    (hsame : (absHistory [] ops1).map (·.2) = (absHistory [] ops2).map (·.2)) :
    ∀ i, i < ((absHistory [] ops1).map (·.2)).length →
      (getRootByIndex (runHistory H n (TM.init H n) ops1).db i).map (·.hash) =
      (getRootByIndex (runHistory H n (TM.init H n) ops2).db i).map (·.hash) := by
  intro i hi
  have i1 := (runHistory_inv H hinj n ops1 (TM.init H n) [] (init_inv H n) wf1).ao
  have i2 := (runHistory_inv H hinj n ops2 (TM.init H n) [] (init_inv H n) wf2).ao
  obtain ⟨r1, a1, a2, _⟩ := getRootByIndex_spec H n _ _ i1.roots i hi
  obtain ⟨r2, b1, b2, _⟩ := getRootByIndex_spec H n _ _ i2.roots i (by rw [← hsame]; exact hi)
  rw [a1, b1]; simp [a2, b2, hsame]

/-- a deposit-count gap is rejected with `invalidIndex` — whenever the in-memory index is not itself
    stale in exactly the wrong way. Excluded point (stated, replayed on the real code in the `tree`
    scenario's malformed stream): right after a reorg that removed leaves, `lastIndex` is still the
    pre-reorg value and an AddLeaf at exactly `lastIndex+1` is accepted without consulting the tables.
    No listed property quantifies over such inputs (the chain emits consecutive counts). -/
theorem C01_gap_rejected_partial (H : HashAlg α) (hinj : H.Inj) (n : Nat) (t : AOT α) (db : TreeDb α) (ls : List α)
    (inv : AOInv H n t db ls) (bn bp idx : Nat) (v : α) (hne : idx ≠ ls.length)
    (hfresh : ((idx : Nat) : Int) ≠ t.lastIndex + 1 ∨ t.lastIndex + 1 = ls.length) :
    (addLeaf H n t db bn bp idx v).2 = .error .invalidIndex := by
  unfold addLeaf
  by_cases e : ((idx : Nat) : Int) ≠ t.lastIndex + 1
  · obtain ⟨t', h1, h2, _⟩ := initCache_ok H hinj n t db ls inv
    rw [if_pos e, h1]
    simp only
    have : ((idx : Nat) : Int) ≠ t'.lastIndex + 1 := by omega
    rw [if_pos this]
  · exfalso
    rcases hfresh with h | h
    · exact e h
    · omega

end Aggkit
