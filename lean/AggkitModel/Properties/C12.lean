import AggkitModel.Model.BridgeAPI
import AggkitModel.Properties.C08
import AggkitModel.Generated.CertFacts
/-
C12 — the bridge API's claim flow yields proofs the bridge contract would accept.
Property theorems only: the L1-info-index lookups never name a leaf that does not cover the bridge (for every content
of the stores, every deposit count), and the proof part is C08's store theorem read for the exit trees.
-/
namespace Aggkit.BridgeAPI

theorem rootIdx_some (cnt ri : Nat) (h : rootIdx cnt = some ri) : cnt = ri + 1 := by
  unfold rootIdx at h
  split at h
  · cases h
  · simp only [Option.some.injEq] at h; omega

theorem loopL1_sound (infos : List Info) (dc : Nat) :
    ∀ (fuel lower upper : Nat) (best r : Info), best ∈ infos → dc < best.mcount →
      loopL1 infos dc fuel lower upper best = some r → r ∈ infos ∧ dc < r.mcount := by
  intro fuel
  induction fuel with
  | zero => intro lower upper best r hb hc h; simp only [loopL1, Option.some.injEq] at h; subst h; exact ⟨hb, hc⟩
  | succ fuel ih =>
    intro lower upper best r hb hc h
    unfold loopL1 at h
    by_cases hl : lower ≤ upper
    · rw [if_pos hl] at h
      simp only at h
      cases hf : firstInfoAfter infos (lower + (upper - lower) / 2) with
      | none => rw [hf] at h; cases h
      | some ti =>
        rw [hf] at h
        simp only [] at h
        have hti : ti ∈ infos := List.mem_of_find?_eq_some hf
        cases hr : rootIdx ti.mcount with
        | none => rw [hr] at h; cases h
        | some ri =>
          rw [hr] at h
          have hcnt := rootIdx_some _ _ hr
          simp only at h
          by_cases h1 : ri < dc
          · rw [if_pos h1] at h; exact ih _ _ _ _ hb hc h
          · rw [if_neg h1] at h
            by_cases h2 : ri = dc
            · rw [if_pos h2] at h
              simp only [Option.some.injEq] at h; subst h
              exact ⟨hti, by omega⟩
            · rw [if_neg h2] at h
              exact ih _ _ _ _ hti (by omega) h
    · rw [if_neg hl] at h
      simp only [Option.some.injEq] at h; subst h; exact ⟨hb, hc⟩

/-- **`/l1-info-tree-index` for a mainnet bridge never names a leaf whose mainnet exit root does not cover the bridge**:
    whatever the L1 info tree and the bridge store contain, an answer `idx` for deposit `dc` is the index of a recorded
    leaf whose mainnet exit root commits to more than `dc` deposits; otherwise the call returns an error -/
theorem C12_index_covers_l1 (infos : List Info) (dc idx : Nat) (h : searchL1 infos dc = .ok idx) :
    ∃ i ∈ infos, i.index = idx ∧ dc < i.mcount := by
  unfold searchL1 at h
  cases hl : infos.getLast? with
  | none => rw [hl] at h; cases h
  | some last =>
    cases hf : infos.head? with
    | none => rw [hl, hf] at h; cases h
    | some first =>
      rw [hl, hf] at h
      simp only at h
      cases hr : rootIdx last.mcount with
      | none => rw [hr] at h; cases h
      | some ri =>
        rw [hr] at h
        simp only at h
        have hcnt := rootIdx_some _ _ hr
        by_cases h1 : ri < dc
        · rw [if_pos h1] at h; cases h
        · rw [if_neg h1] at h
          cases hlo : loopL1 infos dc (last.block - first.block + 2) first.block last.block last with
          | none => rw [hlo] at h; cases h
          | some best =>
            rw [hlo] at h
            simp only [Res.ok.injEq] at h
            obtain ⟨hm, hc⟩ := loopL1_sound infos dc _ _ _ last best (List.mem_of_getLast? hl) (by omega) hlo
            exact ⟨best, hm, h, hc⟩

theorem loopL2_sound (vs : List Verify) (dc : Nat) :
    ∀ (fuel lower upper : Nat) (best r : Verify), best ∈ vs → dc < best.lcount →
      loopL2 vs dc fuel lower upper best = some r → r ∈ vs ∧ dc < r.lcount := by
  intro fuel
  induction fuel with
  | zero => intro lower upper best r hb hc h; simp only [loopL2, Option.some.injEq] at h; subst h; exact ⟨hb, hc⟩
  | succ fuel ih =>
    intro lower upper best r hb hc h
    unfold loopL2 at h
    by_cases hl : lower ≤ upper
    · rw [if_pos hl] at h
      simp only at h
      cases hf : firstVerifyAfter vs (lower + (upper - lower) / 2) with
      | none => rw [hf] at h; cases h
      | some tv =>
        rw [hf] at h
        simp only [] at h
        have htv : tv ∈ vs := List.mem_of_find?_eq_some hf
        cases hr : rootIdx tv.lcount with
        | none => rw [hr] at h; cases h
        | some ri =>
          rw [hr] at h
          have hcnt := rootIdx_some _ _ hr
          simp only at h
          by_cases h1 : ri < dc
          · rw [if_pos h1] at h; exact ih _ _ _ _ hb hc h
          · rw [if_neg h1] at h
            by_cases h2 : ri = dc
            · rw [if_pos h2] at h
              simp only [Option.some.injEq] at h; subst h
              exact ⟨htv, by omega⟩
            · rw [if_neg h2] at h
              exact ih _ _ _ _ htv (by omega) h
    · rw [if_neg hl] at h
      simp only [Option.some.injEq] at h; subst h; exact ⟨hb, hc⟩

/-- equal rollup exit roots contain the same local exit root of this network -/
def RerCoherent (vs : List Verify) (infos : List Info) : Prop :=
  ∀ v ∈ vs, ∀ i ∈ infos, i.rerId = v.rerId → i.lcount = v.lcount

/-- **`/l1-info-tree-index` for an L2 bridge never names a leaf whose rollup exit root does not cover the bridge** -/
theorem C12_index_covers_l2 (vs : List Verify) (infos : List Info) (hco : RerCoherent vs infos) (dc idx : Nat)
    (h : searchL2 vs infos dc = .ok idx) : ∃ i ∈ infos, i.index = idx ∧ dc < i.lcount := by
  unfold searchL2 at h
  cases hl : vs.getLast? with
  | none => rw [hl] at h; cases h
  | some last =>
    cases hf : vs.head? with
    | none => rw [hl, hf] at h; cases h
    | some first =>
      rw [hl, hf] at h
      simp only at h
      cases hr : rootIdx last.lcount with
      | none => rw [hr] at h; cases h
      | some ri =>
        rw [hr] at h
        simp only at h
        have hcnt := rootIdx_some _ _ hr
        by_cases h1 : ri < dc
        · rw [if_pos h1] at h; cases h
        · rw [if_neg h1] at h
          cases hlo : loopL2 vs dc (last.block - first.block + 2) first.block last.block last with
          | none => rw [hlo] at h; cases h
          | some best =>
            rw [hlo] at h
            simp only at h
            obtain ⟨hm, hc⟩ := loopL2_sound vs dc _ _ _ last best (List.mem_of_getLast? hl) (by omega) hlo
            cases hfi : infos.find? (fun i => decide (i.rerId = best.rerId)) with
            | none => rw [hfi] at h; cases h
            | some i =>
              rw [hfi] at h
              simp only [Res.ok.injEq] at h
              have hi : i ∈ infos := List.mem_of_find?_eq_some hfi
              have hid : i.rerId = best.rerId := by
                have := List.find?_some hfi; simpa using this
              exact ⟨i, hi, h, by rw [hco best hm i hi hid]; exact hc⟩

/-- non-vacuity: two leaves per block, the first one predating the deposit; the lookup answers with a covering leaf -/
example : searchL1 [⟨0, 5, 1, 0, 0⟩, ⟨1, 5, 3, 0, 0⟩, ⟨2, 7, 4, 1, 0⟩] 2 = .ok 2 := by decide
example : searchL1 [⟨0, 5, 1, 0, 0⟩, ⟨1, 5, 3, 0, 0⟩, ⟨2, 7, 4, 1, 0⟩] 4 = .err := by decide

end Aggkit.BridgeAPI

namespace Aggkit
variable {α : Type} [DecidableEq α]

/-- **the claim proof**: the bridge syncers' exit trees are append-only tree stores; after ANY well-formed history, for
    the exit root of any recorded version `m` (the mainnet exit root of an L1 info leaf, or the local exit root found in
    its rollup exit tree) and any deposit `dc < m` it covers, the proof served by `GetProof(dc, root)` hashes the
    deposit's leaf to exactly that root (C08's store theorem). The second half — local exit root to rollup exit root —
    is the same statement for the updatable rollup exit tree (`C08_updatable_step`, one upsert at a time). -/
theorem C12_claim_proof (H : HashAlg α) (hinj : H.Inj) (n : Nat) (ops : List (HiOp α))
    (wf : WFhistory H n [] ops) (m dc : Nat) (hm : m ≤ ((absHistory [] ops).map (·.2)).length) (hdc : dc < m) :
    let s := runHistory H n (TM.init H n) ops
    let ls := (absHistory [] ops).map (·.2)
    calcRoot H (ls.getD dc H.zero) (getProof H n s.db dc (vroot H n ls m)) dc = vroot H n ls m :=
  (C08_appendonly H hinj n ops wf _ _ rfl rfl m dc hm hdc).2


namespace Aggkit.BridgeAPI
/-- the block searches halve their interval (regenerated from /repo on every run) -/
theorem C12_code_facts : Gen.CertFacts.binarySearchDivider = "2" := by decide
end Aggkit.BridgeAPI

namespace BridgeAPI
/-! ### the leaf handed out for a claim on the L2: `/injected-l1-info-leaf` -/

theorem foldMin_spec : ∀ (l : List Nat) (acc : Option Nat),
    (∀ m, l.foldl (fun acc k => match acc with | none => some k | some a => some (min a k)) acc = some m →
      (m ∈ l ∨ acc = some m) ∧ (∀ x ∈ l, m ≤ x) ∧ (∀ a, acc = some a → m ≤ a)) ∧
    ((acc.isSome ∨ l ≠ []) → (l.foldl (fun acc k => match acc with | none => some k | some a => some (min a k)) acc).isSome) := by
  intro l
  induction l with
  | nil =>
    intro acc
    refine ⟨fun m h => ?_, fun h => ?_⟩
    · simp only [List.foldl_nil] at h
      exact ⟨Or.inr h, fun x hx => by simp at hx, fun a ha => by rw [h] at ha; cases ha; exact Nat.le_refl _⟩
    · rcases h with h | h
      · simpa using h
      · exact absurd rfl h
  | cons k rest ih =>
    intro acc
    simp only [List.foldl_cons]
    cases acc with
    | none =>
      obtain ⟨h1, h2⟩ := ih (some k)
      refine ⟨fun m h => ?_, fun _ => h2 (Or.inl rfl)⟩
      obtain ⟨a, b, c⟩ := h1 m h
      have hk := c k rfl
      refine ⟨Or.inl ?_, ?_, fun a ha => by cases ha⟩
      · rcases a with a | a
        · exact List.mem_cons_of_mem _ a
        · cases a; exact List.mem_cons_self ..
      · intro x hx
        rcases List.mem_cons.mp hx with e | e
        · rw [e]; exact hk
        · exact b x e
    | some a0 =>
      obtain ⟨h1, h2⟩ := ih (some (min a0 k))
      refine ⟨fun m h => ?_, fun _ => h2 (Or.inl rfl)⟩
      obtain ⟨a, b, c⟩ := h1 m h
      have hk := c _ rfl
      refine ⟨?_, ?_, fun a' ha' => by cases ha'; omega⟩
      · rcases a with a | a
        · exact Or.inl (List.mem_cons_of_mem _ a)
        · cases a
          by_cases hle : a0 ≤ k
          · right; rw [Nat.min_eq_left hle]
          · left; rw [Nat.min_eq_right (by omega)]; exact List.mem_cons_self ..
      · intro x hx
        rcases List.mem_cons.mp hx with e | e
        · rw [e]; omega
        · exact b x e

/-- **the injected leaf**: for a claim on the L2 the API hands out the FIRST L1 info leaf at or after the requested index
    whose global exit root has been injected on that L2 (a claim against any other leaf would be rejected by the bridge
    contract, which only knows injected roots); it finds one whenever one exists -/
theorem C12_injected_leaf (injected : List Nat) (i : Nat) :
    (∀ k, firstInjectedAfter injected i = some k → k ∈ injected ∧ i ≤ k ∧ ∀ j ∈ injected, i ≤ j → k ≤ j) ∧
    ((∃ j ∈ injected, i ≤ j) → (firstInjectedAfter injected i).isSome) := by
  unfold firstInjectedAfter
  obtain ⟨h1, h2⟩ := foldMin_spec (injected.filter (fun k => decide (i ≤ k))) none
  refine ⟨fun k hk => ?_, fun ⟨j, hj, hij⟩ => ?_⟩
  · obtain ⟨a, b, _⟩ := h1 k hk
    rcases a with a | a
    · have := List.mem_filter.mp a
      exact ⟨this.1, by simpa using this.2, fun j hj hij => b j (List.mem_filter.mpr ⟨hj, by simpa using hij⟩)⟩
    · cases a
  · apply h2
    right
    intro he
    have : j ∈ injected.filter (fun k => decide (i ≤ k)) := List.mem_filter.mpr ⟨hj, by simpa using hij⟩
    rw [he] at this; simp at this

example : firstInjectedAfter [5, 2, 9] 3 = some 5 ∧ firstInjectedAfter [5, 2, 9] 10 = none := by decide
end BridgeAPI

end Aggkit
