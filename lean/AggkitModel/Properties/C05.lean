import AggkitModel.Model.Downloader
import AggkitModel.Generated.SyncFacts
/-
C05 — syncers deliver every watched event exactly once, in chain order.
For every chain, chunk size, start block and EVERY sequence of (tip, finalized) observations — tip jumps of any
size, finalized anywhere (below, at, above the tip), failing finalized lookups — the blocks the download loop
hands over are strictly increasing, each carries exactly its own watched logs, and every block with watched logs
below the loop's position has been handed over. Induction over iterations; no bound on anything.
-/
namespace Aggkit.Downloader

/-- facts about the blocks found in a range -/
theorem mem_eventsIn (env : Env) (f t b : Nat) (evs : List Nat) :
    (b, evs) ∈ eventsIn env f t ↔ (f ≤ b ∧ b ≤ t ∧ env.chain b ≠ [] ∧ evs = env.chain b) := by
  unfold eventsIn
  rw [List.mem_filterMap]
  constructor
  · intro ⟨a, ha, hfa⟩
    rw [List.mem_range'_1] at ha
    by_cases hc : env.chain a = []
    · simp [hc] at hfa
    · simp only [hc, if_false, Option.some.injEq, Prod.mk.injEq] at hfa
      obtain ⟨rfl, rfl⟩ := hfa
      exact ⟨ha.1, by omega, hc, rfl⟩
  · intro ⟨h1, h2, h3, h4⟩
    refine ⟨b, ?_, by simp [h3, h4]⟩
    rw [List.mem_range'_1]; omega

theorem eventsIn_sorted (env : Env) (f t : Nat) : (eventsIn env f t).Pairwise (fun a b => a.1 < b.1) := by
  unfold eventsIn
  apply List.Pairwise.filterMap _ _ (List.pairwise_lt_range' (s := f) (n := t + 1 - f))
  intro a a' hlt b hb b' hb'
  by_cases h1 : env.chain a = [] <;> by_cases h2 : env.chain a' = [] <;> simp_all
  obtain ⟨rfl, _⟩ := hb; obtain ⟨rfl, _⟩ := hb'; exact hlt

/-- what has been handed over so far is correct and complete below position `F` -/
structure OutOK (env : Env) (start F : Nat) (out : List Delivered) : Prop where
  sorted : out.Pairwise (fun a b => a.num < b.num)
  sound : ∀ d ∈ out, start ≤ d.num ∧ d.num < F ∧ d.events = env.chain d.num
  complete : ∀ b, start ≤ b → b < F → env.chain b ≠ [] → ∃ d ∈ out, d.num = b

theorem OutOK.append {env : Env} {start F F' : Nat} {out new : List Delivered} (h : OutOK env start F out)
    (hF : F ≤ F') (hstart : start ≤ F)
    (hs : new.Pairwise (fun a b => a.num < b.num))
    (hn : ∀ d ∈ new, F ≤ d.num ∧ d.num < F' ∧ d.events = env.chain d.num)
    (hc : ∀ b, F ≤ b → b < F' → env.chain b ≠ [] → ∃ d ∈ new, d.num = b) :
    OutOK env start F' (out ++ new) := by
  constructor
  · rw [List.pairwise_append]
    refine ⟨h.sorted, hs, ?_⟩
    intro a ha b hb
    have := (h.sound a ha).2.1; have := (hn b hb).1; omega
  · intro d hd
    rcases List.mem_append.mp hd with h1 | h1
    · obtain ⟨a, b, c⟩ := h.sound d h1; exact ⟨a, by omega, c⟩
    · obtain ⟨a, b, c⟩ := hn d h1; exact ⟨by omega, b, c⟩
  · intro b hb1 hb2 hne
    by_cases hlt : b < F
    · obtain ⟨d, hd, e⟩ := h.complete b hb1 hlt hne
      exact ⟨d, List.mem_append_left _ hd, e⟩
    · obtain ⟨d, hd, e⟩ := hc b (by omega) hb2 hne
      exact ⟨d, List.mem_append_right _ hd, e⟩

theorem report_facts (env : Env) (fin f t : Nat) :
    (report env fin (eventsIn env f t)).Pairwise (fun a b => a.num < b.num) ∧
    (∀ d ∈ report env fin (eventsIn env f t), f ≤ d.num ∧ d.num ≤ t ∧ d.events = env.chain d.num ∧ env.chain d.num ≠ []) ∧
    (∀ b, f ≤ b → b ≤ t → env.chain b ≠ [] → ∃ d ∈ report env fin (eventsIn env f t), d.num = b) := by
  refine ⟨?_, ?_, ?_⟩
  · unfold report; rw [List.pairwise_map]; exact eventsIn_sorted env f t
  · intro d hd
    unfold report at hd
    obtain ⟨⟨b, evs⟩, hb, rfl⟩ := List.mem_map.mp hd
    obtain ⟨h1, h2, h3, h4⟩ := (mem_eventsIn env f t b evs).mp hb
    exact ⟨h1, h2, h4, h3⟩
  · intro b h1 h2 h3
    refine ⟨_, List.mem_map.mpr ⟨(b, env.chain b), (mem_eventsIn env f t b _).mpr ⟨h1, h2, h3, rfl⟩, rfl⟩, rfl⟩

/-- the loop invariant -/
structure DInv (env : Env) (start : Nat) (s : DState) : Prop where
  pos : start ≤ s.from_
  tip : s.from_ ≤ s.last + 1
  range : s.from_ ≤ s.to_
  out : OutOK env start s.from_ s.out

/-- what `WaitForNewBlocks` guarantees about the tip it returns when the loop waits -/
def InputOK (s : DState) (inp : Input) : Prop :=
  (s.from_ > s.last ∨ (s.reachTop = true ∧ s.to_ ≥ s.last)) → inp.tip > s.last

theorem getLast_facts (env : Env) (f t : Nat) (b : Nat × List Nat) (h : (eventsIn env f t).getLast? = some b) :
    f ≤ b.1 ∧ b.1 ≤ t ∧ env.chain b.1 ≠ [] ∧ ∀ x, b.1 < x → x ≤ t → env.chain x = [] := by
  obtain ⟨ys, hy⟩ := List.getLast?_eq_some_iff.mp h
  have hm : b ∈ eventsIn env f t := by rw [hy]; simp
  obtain ⟨h1, h2, h3, _⟩ := (mem_eventsIn env f t b.1 b.2).mp hm
  refine ⟨h1, h2, h3, ?_⟩
  intro x hx1 hx2
  by_cases hne : env.chain x = []
  · exact hne
  exfalso
  have hxm : (x, env.chain x) ∈ eventsIn env f t := (mem_eventsIn env f t x _).mpr ⟨by omega, hx2, hne, rfl⟩
  have hs := eventsIn_sorted env f t
  rw [hy, List.pairwise_append] at hs
  rw [hy] at hxm
  rcases List.mem_append.mp hxm with h4 | h4
  · have := hs.2.2 _ h4 b (by simp); simp at this; omega
  · simp at h4; rw [← h4] at hx1; simp at hx1

theorem none_facts (env : Env) (f t : Nat) (h : (eventsIn env f t) = []) :
    ∀ x, f ≤ x → x ≤ t → env.chain x = [] := by
  intro x h1 h2
  by_cases hne : env.chain x = []
  · exact hne
  exfalso
  have : (x, env.chain x) ∈ eventsIn env f t := (mem_eventsIn env f t x _).mpr ⟨h1, h2, hne, rfl⟩
  rw [h] at this; simp at this

/-- **one iteration preserves the invariant** -/
theorem stepD_inv (env : Env) (start : Nat) (s : DState) (inp : Input) (inv : DInv env start s) (hin : InputOK s inp) :
    DInv env start (stepD env s inp) := by
  unfold stepD
  simp only
  generalize hw : (decide (s.from_ > s.last) || (s.reachTop && decide (s.to_ ≥ s.last))) = waits
  generalize hl : (if waits = true then inp.tip else s.last) = last
  generalize ht : (if waits = true then
      (if (s.from_ + 2^64 - s.to_ % 2^64) % 2^64 < env.chunk then s.from_ + env.chunk else s.to_) else s.to_) = to0
  -- after the (optional) wait: from ≤ last, from ≤ to0, last did not decrease
  have hlast : s.from_ ≤ last ∧ s.last ≤ last := by
    cases waits with
    | true =>
      simp only [if_true] at hl; subst hl
      have : inp.tip > s.last := hin (by
        simp only [Bool.or_eq_true, decide_eq_true_eq, Bool.and_eq_true] at hw
        rcases hw with h | ⟨h1, h2⟩
        · exact Or.inl h
        · exact Or.inr ⟨h1, h2⟩)
      have := inv.tip; omega
    | false =>
      simp only [Bool.false_eq_true, if_false] at hl; subst hl
      simp only [Bool.or_eq_false_iff, decide_eq_false_iff_not] at hw
      omega
  have hto : s.from_ ≤ to0 := by
    cases waits with
    | true => simp only [if_true] at ht; subst ht; have := inv.range; split <;> omega
    | false => simp only [Bool.false_eq_true, if_false] at ht; subst ht; exact inv.range
  cases hf : inp.finOk with
  | false =>
    simp only [Bool.not_false, if_true]
    exact ⟨inv.pos, by simp only; omega, hto, inv.out⟩
  | true =>
    simp only [Bool.not_true, Bool.false_eq_true, if_false]
    generalize hfin : min last inp.fin = fin
    generalize hr : (if to0 ≥ last then last else to0) = reqTo
    have hreq : s.from_ ≤ reqTo ∧ reqTo ≤ last := by
      rw [← hr]; split <;> omega
    obtain ⟨r1, r2, r3⟩ := report_facts env fin s.from_ reqTo
    by_cases hsafe : reqTo ≤ fin
    · -- safe zone
      rw [if_pos hsafe]
      refine ⟨by simp only; have := inv.pos; omega, by simp only; omega, by simp only; omega, ?_⟩
      simp only
      cases hgl : (eventsIn env s.from_ reqTo).getLast? with
      | none =>
        simp only [if_true]
        have hempty := List.getLast?_eq_none_iff.mp hgl
        have hz := none_facts env s.from_ reqTo hempty
        rw [List.append_assoc]
        apply inv.out.append (by omega) inv.pos
        · rw [hempty]; simp [report]
        · intro d hd
          rw [hempty] at hd
          simp [report, marker] at hd; subst hd
          exact ⟨hreq.1, by simp, by simp [hz reqTo hreq.1 (Nat.le_refl _)]⟩
        · intro b hb1 hb2 hne
          exact absurd (hz b hb1 (by omega)) hne
      | some b =>
        obtain ⟨g1, g2, g3, g4⟩ := getLast_facts env s.from_ reqTo b hgl
        by_cases hbm : b.1 < reqTo
        · simp only [hbm, decide_true, if_true]
          rw [List.append_assoc]
          apply inv.out.append (by omega) inv.pos
          · rw [List.pairwise_append]
            refine ⟨r1, by simp, ?_⟩
            intro a ha c hc
            simp at hc; subst hc
            simp only [marker]
            obtain ⟨a1, a2, _, a4⟩ := r2 a ha
            rcases Nat.lt_or_ge a.num reqTo with h | h
            · exact h
            · have : a.num = reqTo := by omega
              rw [this] at a4
              exact absurd (g4 reqTo hbm (Nat.le_refl _)) a4
          · intro d hd
            rcases List.mem_append.mp hd with h | h
            · obtain ⟨a1, a2, a3, _⟩ := r2 d h; exact ⟨a1, by omega, a3⟩
            · simp at h; subst h
              simp only [marker]
              exact ⟨hreq.1, by omega, by rw [g4 reqTo hbm (Nat.le_refl _)]⟩
          · intro x hx1 hx2 hne
            obtain ⟨d, hd, e⟩ := r3 x hx1 (by omega) hne
            exact ⟨d, List.mem_append_left _ hd, e⟩
        · simp only [hbm, decide_false, Bool.false_eq_true, if_false]
          apply inv.out.append (by omega) inv.pos r1
          · intro d hd; obtain ⟨a1, a2, a3, _⟩ := r2 d hd; exact ⟨a1, by omega, a3⟩
          · intro x hx1 hx2 hne; exact r3 x hx1 (by omega) hne
    · rw [if_neg hsafe]
      by_cases hemp : (eventsIn env s.from_ reqTo).isEmpty = true
      · rw [if_pos hemp]
        have hempty : eventsIn env s.from_ reqTo = [] := by simpa using hemp
        have hz := none_facts env s.from_ reqTo hempty
        by_cases hfr : fin ≥ s.from_
        · rw [if_pos hfr]
          have hfl : fin ≤ last := by rw [← hfin]; exact Nat.min_le_left _ _
          refine ⟨by simp only; have := inv.pos; omega, by simp only; omega, by simp only; omega, ?_⟩
          simp only
          apply inv.out.append (by omega) inv.pos (by simp)
          · intro d hd; simp at hd; subst hd
            simp only [marker]
            exact ⟨hfr, by omega, by rw [hz fin hfr (by omega)]⟩
          · intro x hx1 hx2 hne; exact absurd (hz x hx1 (by omega)) hne
        · rw [if_neg hfr]
          exact ⟨inv.pos, by simp only; omega, by simp only; omega, inv.out⟩
      · rw [if_neg hemp]
        cases hgl : (eventsIn env s.from_ reqTo).getLast? with
        | none =>
          have := List.getLast?_eq_none_iff.mp hgl
          rw [this] at hemp; simp at hemp
        | some b =>
          obtain ⟨g1, g2, g3, g4⟩ := getLast_facts env s.from_ reqTo b hgl
          refine ⟨by dsimp only; have := inv.pos; omega, by dsimp only; omega, by dsimp only; omega, ?_⟩
          dsimp only
          apply inv.out.append (by omega) inv.pos r1
          · intro d hd
            obtain ⟨a1, a2, a3, a4⟩ := r2 d hd
            refine ⟨a1, ?_, a3⟩
            rcases Nat.lt_or_ge b.1 d.num with h | h
            · exact absurd (g4 d.num h a2) a4
            · omega
          · intro x hx1 hx2 hne; exact r3 x hx1 (by omega) hne

theorem init_inv (env : Env) (start tip0 : Nat) (h : start ≤ tip0 + 1) : DInv env start (init env start tip0) :=
  ⟨Nat.le_refl _, h, by simp [init], ⟨by simp [init], by simp [init], fun b h1 h2 => by simp [init] at h2; omega⟩⟩

/-- inputs are admissible along a whole run -/
def InputsOK (env : Env) : DState → List Input → Prop
  | _, [] => True
  | s, i :: is => InputOK s i ∧ InputsOK env (stepD env s i) is

theorem run_inv (env : Env) (start : Nat) : ∀ (inps : List Input) (s : DState),
    DInv env start s → InputsOK env s inps → DInv env start (run env s inps) := by
  intro inps
  induction inps with
  | nil => intro s inv _; exact inv
  | cons i is ih =>
    intro s inv hin
    simp only [run, List.foldl_cons]
    exact ih _ (stepD_inv env start s i inv hin.1) hin.2

/-- **C05**: after ANY number of iterations on ANY admissible observation sequence: the blocks handed over are
    strictly increasing (hence each at most once), each carries exactly the watched logs of its own block in log
    order (markers only for blocks without watched logs), and every block with watched logs between the start
    and the loop's position has been handed over — so anything delivered later has a higher number: no block is
    handed over while an earlier event block is missing. -/
theorem C05_exactly_once (env : Env) (start tip0 : Nat) (inps : List Input) (h0 : start ≤ tip0 + 1)
    (hin : InputsOK env (init env start tip0) inps) :
    let s := run env (init env start tip0) inps
    s.out.Pairwise (fun a b => a.num < b.num) ∧
    (∀ d ∈ s.out, d.events = env.chain d.num ∧ start ≤ d.num ∧ d.num < s.from_) ∧
    (∀ b, start ≤ b → b < s.from_ → env.chain b ≠ [] → ∃ d ∈ s.out, d.num = b) := by
  intro s
  have inv := run_inv env start inps _ (init_inv env start tip0 h0) hin
  exact ⟨inv.out.sorted, fun d hd => by obtain ⟨a, b, c⟩ := inv.out.sound d hd; exact ⟨c, a, b⟩, inv.out.complete⟩

/-- the same holds for every prefix of the output: when block `d` was handed over, all earlier event blocks already were -/
theorem C05_no_gap (env : Env) (start tip0 : Nat) (inps : List Input) (h0 : start ≤ tip0 + 1)
    (hin : InputsOK env (init env start tip0) inps) :
    let s := run env (init env start tip0) inps
    ∀ (pre : List Delivered) (d : Delivered) (post : List Delivered), s.out = pre ++ d :: post →
      ∀ b, start ≤ b → b < d.num → env.chain b ≠ [] → ∃ e ∈ pre, e.num = b := by
  intro s pre d post hsplit b hb1 hb2 hne
  obtain ⟨hs, hsound, hcomp⟩ := C05_exactly_once env start tip0 inps h0 hin
  have hd : d ∈ s.out := by rw [hsplit]; simp
  obtain ⟨e, he, hen⟩ := hcomp b hb1 (by have := (hsound d hd).2.2; omega) hne
  rw [hsplit] at he hs
  rcases List.mem_append.mp he with h | h
  · exact ⟨e, h, hen⟩
  · exfalso
    rw [List.pairwise_append] at hs
    rcases List.mem_cons.mp h with h1 | h1
    · subst h1; omega
    · have := (List.pairwise_cons.mp hs.2.1).1 e h1; omega

def exEnv0 : Env := { chain := fun b => if b = 3 then [31, 32] else if b = 4 then [41] else if b = 9 then [91] else [], chunk := 2, finalizedTag := true }

/-- **header mismatches are transparent**: whatever the header queries answer, when the range fetch returns blocks
    they are exactly the event blocks of the range (so `stepD`, which uses `eventsIn`, is what the loop sees); and with
    at most 5 disagreeing attempts it does return. The give-up path (`none`: 6 disagreeing attempts in a row, the caller
    then treats the range as empty) is outside this theorem — it needs a reorg at every attempt and belongs to C06. -/
theorem C05_retry_transparent (env : Env) (f t : Nat) (mism : Nat → Nat → Bool) (left attempt : Nat) :
    (∀ r, getEventsRetry env f t mism left attempt = some r → r = eventsIn env f t) ∧
    ((∃ k, k ≤ left ∧ (eventsIn env f t).any (fun b => mism (attempt + k) b.1) = false) →
      getEventsRetry env f t mism left attempt = some (eventsIn env f t)) := by
  induction left generalizing attempt with
  | zero =>
    constructor
    · intro r h
      unfold getEventsRetry at h
      split at h
      · simp at h
      · simpa using h.symm
    · intro ⟨k, hk, hf⟩
      have : k = 0 := by omega
      subst this
      unfold getEventsRetry
      simp only [Nat.add_zero] at hf
      simp [hf]
  | succ n ih =>
    constructor
    · intro r h
      unfold getEventsRetry at h
      split at h
      · exact (ih (attempt + 1)).1 r h
      · simpa using h.symm
    · intro ⟨k, hk, hf⟩
      unfold getEventsRetry
      by_cases hm : (eventsIn env f t).any (fun b => mism attempt b.1) = true
      · rw [if_pos hm]
        have hk0 : k ≠ 0 := by
          intro h0; subst h0; simp only [Nat.add_zero] at hf; rw [hf] at hm; exact absurd hm (by decide)
        apply (ih (attempt + 1)).2
        refine ⟨k - 1, by omega, ?_⟩
        have : attempt + 1 + (k - 1) = attempt + k := by omega
        rw [this]; exact hf
      · rw [if_neg hm]

/-- the real constant: `MaxRetryCountBlockHashMismatch = 5` retries after the first attempt; the second attempt succeeding -/
example : getEventsRetry exEnv0 1 10 (fun a b => a == 0 && b == 4) 5 0 = some (eventsIn exEnv0 1 10) := by decide

theorem group_same_block (b : Nat) : ∀ (ids : List Nat) (rest : List (Nat × Nat)) (acc : List (Nat × List Nat)) (evs : List Nat),
    groupLogs (ids.map (fun id => (b, id)) ++ rest) (acc ++ [(b, evs)]) = groupLogs rest (acc ++ [(b, evs ++ ids)]) := by
  intro ids
  induction ids with
  | nil => intro rest acc evs; simp
  | cons id ids ih =>
    intro rest acc evs
    simp only [List.map_cons, List.cons_append]
    conv => lhs; unfold groupLogs
    simp only [List.getLast?_append, List.getLast?_singleton, Option.some_or, Nat.lt_irrefl, if_false,
      List.dropLast_concat]
    rw [ih]
    simp

theorem group_blocks (chain : Nat → List Nat) : ∀ (bs : List Nat) (acc : List (Nat × List Nat)),
    bs.Pairwise (· < ·) → (∀ a ∈ acc, ∀ b ∈ bs, a.1 < b) →
    groupLogs (bs.flatMap (fun b => (chain b).map (fun id => (b, id)))) acc =
      acc ++ bs.filterMap (fun b => if chain b = [] then none else some (b, chain b)) := by
  intro bs
  induction bs with
  | nil => intro acc _ _; simp [groupLogs]
  | cons b bs ih =>
    intro acc hs hlt
    have hs' := List.pairwise_cons.mp hs
    simp only [List.flatMap_cons, List.filterMap_cons]
    cases hc : chain b with
    | nil =>
      simp only [List.map_nil, List.nil_append, if_true]
      exact ih acc hs'.2 (fun a ha x hx => hlt a ha x (List.mem_cons_of_mem _ hx))
    | cons id ids =>
      simp only [List.map_cons, List.cons_append, reduceCtorEq, if_false]
      -- the first log of the block opens it
      have hopen : groupLogs ((b, id) :: (ids.map (fun id => (b, id)) ++ bs.flatMap (fun b => (chain b).map (fun id => (b, id))))) acc =
          groupLogs (ids.map (fun id => (b, id)) ++ bs.flatMap (fun b => (chain b).map (fun id => (b, id)))) (acc ++ [(b, [id])]) := by
        conv => lhs; unfold groupLogs
        cases hl : acc.getLast? with
        | none => rfl
        | some last =>
          simp only
          have : last.1 < b := hlt last (List.mem_of_getLast? hl) b (by simp)
          rw [if_pos this]
      rw [hopen, group_same_block, ih _ hs'.2]
      · simp
      · intro a ha x hx
        rcases List.mem_append.mp ha with h | h
        · exact hlt a h x (List.mem_cons_of_mem _ hx)
        · simp at h; subst h; exact hs'.1 x hx

/-- **the grouping loop yields exactly the event blocks of the range**: every block that has watched logs, once, in
    ascending order, each with all of its own logs in log order and none of another block's -/
theorem C05_grouping (env : Env) (f t : Nat) : groupLogs (logsIn env f t) [] = eventsIn env f t := by
  unfold logsIn eventsIn
  rw [group_blocks env.chain _ [] (List.pairwise_lt_range' (s := f) (n := t + 1 - f)) (by simp)]
  simp

example : groupLogs (logsIn exEnv0 1 10) [] = [(3, [31, 32]), (4, [41]), (9, [91])] := by decide


/-- what the model takes from the source (regenerated from /repo on every run): the retry after a header-hash mismatch
    fetches the WHOLE range again (`getEventsRetry`), gives up after 5 retries; the grouping loop opens a block exactly
    under `groupLogs`' condition; the driver retries a failed read of the last-processed marker and starts the downloader
    at marker + 1 -/
theorem C05_code_facts :
    Gen.SyncFacts.mismatchRetryArgs = ["ctx", "fromBlock", "toBlock", "retryCount + 1"] ∧
    Gen.SyncFacts.maxRetryCountBlockHashMismatch = "5" ∧
    Gen.SyncFacts.mismatchGiveUpCond = ["retryCount >= MaxRetryCountBlockHashMismatch"] ∧
    Gen.SyncFacts.groupOpenCond = ["latestBlock == nil || latestBlock.Num < l.BlockNumber"] ∧
    Gen.SyncFacts.markerReadLoop = ["assign", "if(err != nil):continue", "break"] ∧
    Gen.SyncFacts.downloadCallArgs = ["cancellableCtx", "lastProcessedBlock + 1", "downloadCh"] := by decide

/-- non-vacuity: a chain with logs in blocks 3, 4 and 9, chunk 2, tip jumping 5 → 12 → 20, finalized lagging;
    the inputs are admissible and the loop hands over 3, 4, 9 and the marker 12 -/
def exEnv : Env := { chain := fun b => if b = 3 then [31, 32] else if b = 4 then [41] else if b = 9 then [91] else [], chunk := 2, finalizedTag := true }
def exInputs : List Input := [⟨5, 2, true⟩, ⟨5, 2, true⟩, ⟨12, 4, true⟩, ⟨12, 4, true⟩, ⟨12, 12, true⟩, ⟨20, 12, true⟩]
example : (run exEnv (init exEnv 1 5) exInputs).out.map (·.num) = [3, 4, 9, 12] := by decide
example : InputsOK exEnv (init exEnv 1 5) exInputs := by
  simp only [InputsOK, InputOK, exInputs]
  decide

/-! ### F6 — the give-up path of the range fetch -/

/-- without a give-up the loop is the one the theorems above are about -/
theorem runG_eq_run (env : Env) : ∀ (inps : List (Input × Bool)) (s : DState), (∀ i ∈ inps, i.2 = false) →
    runG env s inps = run env s (inps.map (·.1)) := by
  intro inps
  induction inps with
  | nil => intro s _; rfl
  | cons i rest ih =>
    intro s h
    have hi : i.2 = false := h i (by simp)
    simp only [runG, run, List.foldl_cons, List.map_cons]
    have : stepG env s i = stepD env s i.1 := by unfold stepG; rw [hi]; rfl
    rw [this]
    exact ih _ (fun j hj => h j (List.mem_cons_of_mem _ hj))

/-- **F6 on the model — with a give-up the full statement is FALSE**: block 3 carries watched logs, the first range [1, 11]
    lies below the finalized block; the fetch gives up, the loop hands over the marker 11 and moves on to 12: block 3 is never
    handed over although the loop's position is far beyond it. -/
theorem C05_giveup_false :
    let env : Env := { chain := fun b => if b = 3 then [31] else if b = 15 then [151] else [], chunk := 10, finalizedTag := true }
    let s := runG env (init env 1 20) [(⟨20, 20, true⟩, true), (⟨20, 20, true⟩, false)]
    s.out.map (·.num) = [11, 15, 20] ∧ s.from_ = 21 ∧ env.chain 3 ≠ [] := by
  decide

/-! ### a failed read of the finalized pointer does not make the loop wait -/

/-- **no stall after a failed read of the finalized pointer**: the iteration in which `GetLastFinalizedBlock` fails is
    abandoned with `reachTop` cleared, so the next iteration waits for a new block only if there is really nothing left below
    the tip it knows: when `from ≤ last` it does not consult the tip at all — it fetches the pending range even on a chain that
    stays quiet from then on (whatever `WaitForNewBlocks` would have answered). -/
theorem C05_no_stall_after_failed_read (env : Env) (s : DState) (inp inp' : Input) (hf : inp.finOk = false)
    (hleft : (stepD env s inp).from_ ≤ (stepD env s inp).last) (t : Nat) :
    (stepD env s inp).reachTop = false ∧
    stepD env (stepD env s inp) inp' = stepD env (stepD env s inp) { inp' with tip := t } := by
  have hr : (stepD env s inp).reachTop = false := by
    unfold stepD; simp [hf]
  refine ⟨hr, ?_⟩
  generalize stepD env s inp = s1 at hr hleft
  have hw : (decide (s1.from_ > s1.last) || (s1.reachTop && decide (s1.to_ ≥ s1.last))) = false := by
    rw [hr]; simp; omega
  unfold stepD
  simp only [hw, Bool.false_eq_true, if_false]

/-- the directed schedule of the correspondence check: idle at the top (tip = finalized = 5), the tip moves to 7 with a
    watched log, the read of the finalized pointer fails once, the chain stays quiet — block 7 is handed over -/
example :
    let env : Env := { chain := fun b => if b = 3 then [31] else if b = 7 then [71] else [], chunk := 10, finalizedTag := true }
    (run env (init env 1 5) [⟨5, 5, true⟩, ⟨7, 7, false⟩, ⟨7, 7, true⟩]).out.map (·.num) = [3, 5, 7] := by decide

end Aggkit.Downloader
