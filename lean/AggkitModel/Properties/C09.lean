import AggkitModel.Model.ClaimProof
import AggkitModel.Properties.C08
/-
C09 — claim proofs inside a certificate verify against the L1 info root it names.
Property theorems only. `C09_claims_verify` composes the node-store theorem of the append-only L1 info tree (C08, for every
history of blocks, rollbacks, restarts and reorgs) with the claim-data assembly of `getImportedBridgeExits`.
-/
namespace Aggkit.ClaimProof
open Aggkit
variable {α : Type} [DecidableEq α]

/-- `verifyClaimGERs` accepts exactly the claims whose global exit root is the hash of their two exit roots -/
theorem C09_ger_checked (H : HashAlg α) (c : ClaimIn α) : gerOK H c = true ↔ c.ger = H.node c.mer c.rer := by
  unfold gerOK; simp [eq_comm]

/-- **claim-data assembly**: if the bridge contract accepted the claim (its calldata proofs lead from the claimed leaf to
    the exit roots it named, and the global exit root is their hash) and the L1 info leaf hashes with the served proof to
    the chosen root, then everything packed into the imported bridge exit verifies: the exit leaf hashes with
    `proof_leaf_mer` to the mainnet exit root — or with `proof_leaf_ler` to the stated local exit root and that with
    `proof_ler_rer` to the rollup exit root —, the leaf's global exit root is the hash of these exit roots, and the L1 info
    leaf hashes with `proof_ger_l1root` to the named L1 info root at the stated index. -/
theorem C09_exit_proofs (H : HashAlg α) (c : ClaimIn α) (l1LeafHash : α) (l1Index : Nat) (gerSiblings : List α) (root : α)
    (hacc : ContractAccepted H c) (hl1 : calcRoot H l1LeafHash gerSiblings l1Index = root) :
    Verifies H c l1LeafHash (pack H c l1Index c.ger gerSiblings root) := by
  obtain ⟨hger, hproof⟩ := hacc
  unfold Verifies pack
  cases hm : c.mainnet with
  | true =>
    simp only [hm, if_true] at hproof ⊢
    exact ⟨hproof, trivial, hger, hl1⟩
  | false =>
    simp only [hm, Bool.false_eq_true, if_false] at hproof ⊢
    exact ⟨trivial, ⟨hproof, trivial⟩, hger, hl1⟩

/-- **the L1 info leaf proof**: after ANY well-formed history of the L1 info tree store (blocks, rolled-back blocks,
    restarts, reorgs), for every recorded version `m` of the tree — `m` is the leaf count the certificate names, its root
    the L1 info root it names — and every leaf index `i < m`, the proof the node serves for `(i, root m)` hashes with the
    `i`-th leaf to exactly that root. This is `C08_appendonly` read for the L1 info tree. -/
theorem C09_l1_proof (H : HashAlg α) (hinj : H.Inj) (n : Nat) (ops : List (HiOp α))
    (wf : WFhistory H n [] ops) (m i : Nat)
    (hm : m ≤ ((absHistory [] ops).map (·.2)).length) (hi : i < m) :
    let s := runHistory H n (TM.init H n) ops
    let ls := (absHistory [] ops).map (·.2)
    calcRoot H (ls.getD i H.zero) (getProof H n s.db i (vroot H n ls m)) i = vroot H n ls m :=
  (C08_appendonly H hinj n ops wf _ _ rfl rfl m i hm hi).2

/-- the leaf count belongs to the root: the root table holds, at row `m-1`, the root of the first `m` leaves with index
    `m-1` (so `root.Index + 1` is the number of leaves that root commits to) -/
theorem C09_leaf_count (H : HashAlg α) (hinj : H.Inj) (n : Nat) (ops : List (HiOp α)) (wf : WFhistory H n [] ops)
    (m : Nat) (hm : m < ((absHistory [] ops).map (·.2)).length) :
    ∃ r, (runHistory H n (TM.init H n) ops).db.roots[m]? = some r ∧
      r.hash = vroot H n ((absHistory [] ops).map (·.2)) (m + 1) ∧ r.index = m :=
  (C08_roots_are_versions H hinj n ops wf).2 m hm

/-- **C09**: for every history of the L1 info tree, every finalized version `m` chosen as the certificate's L1 info
    root, and every accepted claim whose global exit root sits in a leaf `i < m`, the claim data the node builds verifies
    against that root. -/
theorem C09_claims_verify (H : HashAlg α) (hinj : H.Inj) (n : Nat) (ops : List (HiOp α))
    (wf : WFhistory H n [] ops) (m i : Nat) (hm : m ≤ ((absHistory [] ops).map (·.2)).length) (hi : i < m)
    (c : ClaimIn α) (hacc : ContractAccepted H c) :
    let s := runHistory H n (TM.init H n) ops
    let ls := (absHistory [] ops).map (·.2)
    Verifies H c (ls.getD i H.zero) (pack H c i c.ger (getProof H n s.db i (vroot H n ls m)) (vroot H n ls m)) :=
  C09_exit_proofs H c _ i _ _ hacc (C09_l1_proof H hinj n ops wf m i hm hi)

/-- non-vacuity: an accepted rollup claim over a two-level toy hash -/
example : ContractAccepted (⟨fun a b => 10 * a + b, 0⟩ : HashAlg Nat)
    { mainnet := false, rollup := 1, leaf := 2, exitLeaf := 7, mer := 5, rer := 1214, ger := 1264,
      proofLocal := [1, 2], proofRollup := [3, 4] } := by
  unfold ContractAccepted; decide

end Aggkit.ClaimProof
