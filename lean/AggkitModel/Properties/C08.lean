import AggkitModel.Proofs.TreeHistory
set_option linter.unusedSectionVars false
/-
C08 — every Merkle proof served verifies against the root it was asked for.
Property theorems only. Height `n` and the hash algebra are arbitrary; `H.Inj` is collision-freedom.
Histories are unbounded lists of blocks (committed or rolled back at any point, incl. a fault inside
AddLeaf), restarts and reorgs; `WFhistory` states what the chain guarantees (consecutive deposit
counts, increasing block numbers, keccak leaves ≠ 0, capacity).
-/
namespace Aggkit
variable {α : Type} [DecidableEq α]

/-- **append-only trees** (exit tree, L1 info tree): after ANY well-formed history, for every stored
    version `m` (historical roots included) and every position `i < m`, the leaf served is the `i`-th
    surviving leaf and the proof served hashes with it to exactly that version's root. -/
theorem C08_appendonly (H : HashAlg α) (hinj : H.Inj) (n : Nat) (ops : List (HiOp α))
    (wf : WFhistory H n [] ops) (s : TM α) (ls : List α)
    (hs : s = runHistory H n (TM.init H n) ops) (hls : ls = (absHistory [] ops).map (·.2)) :
    ∀ m i, m ≤ ls.length → i < m →
      getLeaf n s.db i (vroot H n ls m) = .ok (ls.getD i H.zero) ∧
      calcRoot H (ls.getD i H.zero) (getProof H n s.db i (vroot H n ls m)) i = vroot H n ls m := by
  intro m i hm hi
  have inv := runHistory_inv H hinj n ops (TM.init H n) [] (init_inv H n) wf
  rw [← hs] at inv
  have iao := inv.ao
  rw [← hls] at iao
  have hcl := iao.closed m hm
  have hb : i < 2^n := by have := iao.bound; omega
  have hleaf : leafFn H (ls.take m) i = ls.getD i H.zero := by rw [leafFn_take_lt H ls m i hi]; rfl
  have hzo : ZeroOutside H (leafFn H (ls.take m)) (fun p => p < m) := by
    intro j hj; exact leafFn_ge H _ j (by simp; omega)
  constructor
  · have := getLeaf_spec H hinj n s.db _ _ iao.cons hcl i hb hi
    rw [hleaf] at this; exact this
  · unfold getProof
    rw [show vroot H n ls m = tn H (leafFn H (ls.take m)) n 0 from rfl,
      getSiblings_spec H hinj n s.db.rht _ _ iao.cons hcl hzo i hb, ← hleaf]
    exact calcRoot_spec H n _ i hb

/-- the versions quantified over in `C08_appendonly` are exactly the rows of the root table:
    row `i` holds `vroot … (i+1)` with position `i` (so "every root the node has recorded" is covered) -/
theorem C08_roots_are_versions (H : HashAlg α) (hinj : H.Inj) (n : Nat) (ops : List (HiOp α))
    (wf : WFhistory H n [] ops) :
    let s := runHistory H n (TM.init H n) ops
    let ls := (absHistory [] ops).map (·.2)
    s.db.roots.length = ls.length ∧
    ∀ i, i < ls.length → ∃ r, s.db.roots[i]? = some r ∧ r.hash = vroot H n ls (i+1) ∧ r.index = i :=
  (runHistory_inv H hinj n ops (TM.init H n) [] (init_inv H n) wf).ao.roots

/-- **updatable tree** (rollup exit tree): one upsert on a store that is closed for the current version
    yields the spec root of the updated leaves, keeps the store closed for the old and the new version,
    and every written position of the new version is served with a verifying proof. -/
theorem C08_updatable_step (H : HashAlg α) (hinj : H.Inj) (n : Nat) (db : TreeDb α) (f : Nat → α) (W : Nat → Prop)
    (hcons : Consistent H db.rht) (hcl : Closed H n db.rht f W) (hzo : ZeroOutside H f W)
    (hroot : lastRootHash H n db = tn H f n 0)
    (bn bp i : Nat) (v : α) (hi : i < 2^n) (root : α) (db' : TreeDb α)
    (hup : upsertLeaf H n db bn bp i v = .ok (root, db')) :
    let f' := updateFn f i v
    root = tn H f' n 0 ∧ Consistent H db'.rht ∧ Closed H n db'.rht f W ∧
    Closed H n db'.rht f' (fun p => W p ∨ p = i) ∧
    (∀ p, (W p ∨ p = i) → p < 2^n →
      getLeaf n db' p root = .ok (f' p) ∧ calcRoot H (f' p) (getProof H n db' p root) p = root) := by
  intro f'
  unfold upsertLeaf at hup
  simp only [hroot] at hup
  rw [getSiblings_spec H hinj n db.rht f W hcons hcl hzo i hi] at hup
  have hs : (List.range n).map (sibT H f i) = (List.range' 0 n).map (sibT H f' i) := by
    rw [List.range_eq_range']
    apply List.map_congr_left
    intro h _; exact (sibT_update H f i h v).symm
  have hloop := upsertLoop_spec H f' i n 0 []
  simp only [Nat.pow_zero, Nat.div_one, tn_zero, Nat.zero_add, List.nil_append] at hloop
  have hv : f' i = v := by simp [f', updateFn]
  rw [hs, ← hv, hloop, Nat.div_eq_of_lt hi] at hup
  simp only at hup
  split at hup
  · simp at hup
  · rename_i dbr hsr
    simp only [Except.ok.injEq, Prod.mk.injEq] at hup
    obtain ⟨e1, e2⟩ := hup
    have hrht : dbr.rht = db.rht := by
      unfold storeRoot at hsr; split at hsr
      · simp at hsr
      · simp at hsr; rw [← hsr]
    subst e2
    have c1 : Consistent H (storeNodes dbr.rht (pathNodes H n f' i)) := by
      rw [hrht]; exact storeNodes_consistent H _ _ hcons (pathNodes_consistent H n _ _)
    have c2 : Closed H n (storeNodes dbr.rht (pathNodes H n f' i)) f W := by
      rw [hrht]; exact closed_mono H n _ _ _ _ hcl
    have c3 : Closed H n (storeNodes dbr.rht (pathNodes H n f' i)) f' (fun p => W p ∨ p = i) := by
      rw [hrht]; exact closed_update H n db.rht f W i v hcl
    have hzo' : ZeroOutside H f' (fun p => W p ∨ p = i) := by
      intro j hj
      simp only [f', updateFn]
      rw [if_neg (fun e => hj (Or.inr e))]
      exact hzo j (fun hw => hj (Or.inl hw))
    refine ⟨e1.symm, c1, c2, c3, ?_⟩
    intro p hp hpb
    rw [← e1]
    constructor
    · exact getLeaf_spec H hinj n _ f' _ c1 c3 p hpb hp
    · unfold getProof
      simp only [pathNodes] at c1 c3 ⊢
      rw [getSiblings_spec H hinj n _ f' _ c1 c3 hzo' p hpb]
      exact calcRoot_spec H n f' p hpb

/-- non-vacuity: the free term algebra is a collision-free hash algebra, and a concrete history
    (a committed block, a rolled-back block, a reorg, a restart) is well-formed -/
inductive Term where
  | z : Term
  | leaf : Nat → Term
  | node : Term → Term → Term
  deriving DecidableEq, Repr

def TermHash : HashAlg Term := { node := Term.node, zero := Term.z }

example : TermHash.Inj := by
  intro a b c d h; simp [TermHash] at h; exact h

example : WFhistory TermHash 3 ([] : List (Nat × Term))
    [ .block 1 [(0, .leaf 10), (1, .leaf 11)] .commit,
      .block 2 [(2, .leaf 12), (3, .leaf 13)] (.rollbackAfter 2 true),
      .restart,
      .block 2 [(2, .leaf 22)] .commit,
      .reorg 2,
      .block 2 [(2, .leaf 32), (3, .leaf 33)] .commit ] := by
  simp [WFhistory, WFop, HiOp.abs, TermHash, List.range']

/-! ### the updatable tree over a whole history -/

/-- one `UpsertLeaf` call: (block number, position in block, tree position, value) -/
structure Ups (α : Type) where
  bn : Nat
  bp : Nat
  pos : Nat
  val : α

/-- run the upserts in order, collecting the roots returned; `none` as soon as one fails (duplicate root hash: a tree
    state that recurs — excluded on the real chain, see C11) -/
def runUps (H : HashAlg α) (n : Nat) : TreeDb α → List (Ups α) → Option (TreeDb α × List α)
  | db, [] => some (db, [])
  | db, u :: rest =>
    match upsertLeaf H n db u.bn u.bp u.pos u.val with
    | .ok (r, db') => (runUps H n db' rest).map (fun x => (x.1, r :: x.2))
    | .error _ => none

/-- the successive versions (leaf function, written positions) produced by a list of upserts -/
def versions (f : Nat → α) (W : Nat → Prop) : List (Ups α) → List ((Nat → α) × (Nat → Prop))
  | [] => []
  | u :: rest => (updateFn f u.pos u.val, fun p => W p ∨ p = u.pos) :: versions (updateFn f u.pos u.val) (fun p => W p ∨ p = u.pos) rest

/-- (block, position) keys strictly increasing along the list and above `(b0, p0)` -/
def KeysInc : Nat × Nat → List (Ups α) → Prop
  | _, [] => True
  | k, u :: rest => (u.bn > k.1 ∨ (u.bn = k.1 ∧ u.bp > k.2)) ∧ KeysInc (u.bn, u.bp) rest

def keyAfter (r : RootRow α) (k : Nat × Nat) : Prop := k.1 > r.blockNum ∨ (k.1 = r.blockNum ∧ k.2 > r.blockPos)

theorem lastRoot_append (db' : TreeDb α) (rs : List (RootRow α)) (r : RootRow α) (hr : db'.roots = rs ++ [r])
    (h : ∀ x ∈ rs, r.after x = true) : getLastRoot db' = some r := by
  unfold getLastRoot
  rw [hr, List.foldl_append]
  simp only [List.foldl_cons, List.foldl_nil]
  cases hb : rs.foldl (fun best r => match best with
      | none => some r
      | some b => if r.after b then some r else some b) none with
  | none => rfl
  | some b =>
    simp only
    have hmem : b ∈ rs := by
      rcases getLastRoot_foldl_mem rs none b hb with h1 | h1
      · exact h1
      · simp at h1
    rw [if_pos (h b hmem)]

/-- what one successful upsert does to the tables: one more root row, nodes only added -/
theorem upsertLeaf_shape (H : HashAlg α) (n : Nat) (db : TreeDb α) (bn bp i : Nat) (v root : α) (db' : TreeDb α)
    (hup : upsertLeaf H n db bn bp i v = .ok (root, db')) :
    db'.roots = db.roots ++ [{ hash := root, index := i, blockNum := bn, blockPos := bp }] ∧
    ∃ ns, db'.rht = storeNodes db.rht ns := by
  unfold upsertLeaf at hup
  simp only at hup
  split at hup
  · simp at hup
  · rename_i dbr hsr
    simp only [Except.ok.injEq, Prod.mk.injEq] at hup
    obtain ⟨e1, e2⟩ := hup
    unfold storeRoot at hsr
    split at hsr
    · simp at hsr
    · simp only [Except.ok.injEq] at hsr
      subst hsr; subst e2
      exact ⟨by rw [e1], _, rfl⟩

structure UInv (H : HashAlg α) (n : Nat) (db : TreeDb α) (f : Nat → α) (W : Nat → Prop)
    (vs : List ((Nat → α) × (Nat → Prop))) (k : Nat × Nat) : Prop where
  cons : Consistent H db.rht
  last : lastRootHash H n db = tn H f n 0
  zo : ZeroOutside H f W
  cur : Closed H n db.rht f W
  old : ∀ v ∈ vs, Closed H n db.rht v.1 v.2 ∧ ZeroOutside H v.1 v.2
  keys : ∀ r ∈ db.roots, keyAfter r k ∨ (r.blockNum = k.1 ∧ r.blockPos = k.2)

theorem runUps_inv (H : HashAlg α) (hinj : H.Inj) (n : Nat) : ∀ (us : List (Ups α)) (db : TreeDb α) (f : Nat → α)
    (W : Nat → Prop) (vs : List ((Nat → α) × (Nat → Prop))) (k : Nat × Nat),
    UInv H n db f W vs k → KeysInc k us → (∀ u ∈ us, u.pos < 2^n) →
    ∀ db' roots, runUps H n db us = some (db', roots) →
      roots = (versions f W us).map (fun v => tn H v.1 n 0) ∧
      Consistent H db'.rht ∧
      ∀ v ∈ vs ++ (f, W) :: versions f W us, Closed H n db'.rht v.1 v.2 ∧ ZeroOutside H v.1 v.2 := by
  intro us
  induction us with
  | nil =>
    intro db f W vs k inv _ _ db' roots h
    simp only [runUps, Option.some.injEq, Prod.mk.injEq] at h
    obtain ⟨rfl, rfl⟩ := h
    refine ⟨rfl, inv.cons, ?_⟩
    intro v hv
    simp only [versions, List.mem_append, List.mem_cons, List.not_mem_nil, or_false] at hv
    rcases hv with h1 | h1
    · exact inv.old v h1
    · subst h1; exact ⟨inv.cur, inv.zo⟩
  | cons u rest ih =>
    intro db f W vs k inv hk hpos db' roots h
    simp only [runUps] at h
    cases hup : upsertLeaf H n db u.bn u.bp u.pos u.val with
    | error e => rw [hup] at h; simp at h
    | ok res =>
      obtain ⟨r, db1⟩ := res
      rw [hup] at h
      simp only [Option.map_eq_some_iff] at h
      obtain ⟨⟨db2, roots2⟩, hrun, heq⟩ := h
      simp only [Prod.mk.injEq] at heq
      obtain ⟨rfl, rfl⟩ := heq
      have hi : u.pos < 2^n := hpos u (by simp)
      obtain ⟨s1, s2, s3, s4, _⟩ := C08_updatable_step H hinj n db f W inv.cons inv.cur inv.zo inv.last u.bn u.bp u.pos u.val hi r db1 hup
      obtain ⟨hroots, ns, hrht⟩ := upsertLeaf_shape H n db u.bn u.bp u.pos u.val r db1 hup
      have hk' := hk.1
      -- the new row is the last one
      have hlast : lastRootHash H n db1 = tn H (updateFn f u.pos u.val) n 0 := by
        unfold lastRootHash
        have : getLastRoot db1 = some { hash := r, index := u.pos, blockNum := u.bn, blockPos := u.bp } := by
          apply lastRoot_append db1 db.roots _ hroots
          intro x hx
          unfold RootRow.after
          simp only [Bool.or_eq_true, decide_eq_true_eq, Bool.and_eq_true, beq_iff_eq]
          rcases inv.keys x hx with h1 | h1
          · unfold keyAfter at h1
            rcases hk' with h2 | h2 <;> rcases h1 with h3 | h3 <;> omega
          · rcases hk' with h2 | h2 <;> omega
        rw [this, s1]
      have hzo' : ZeroOutside H (updateFn f u.pos u.val) (fun p => W p ∨ p = u.pos) := by
        intro j hj
        simp only [updateFn]
        rw [if_neg (fun e => hj (Or.inr e))]
        exact inv.zo j (fun hw => hj (Or.inl hw))
      have inv1 : UInv H n db1 (updateFn f u.pos u.val) (fun p => W p ∨ p = u.pos) (vs ++ [(f, W)]) (u.bn, u.bp) := by
        refine ⟨s2, hlast, hzo', s4, ?_, ?_⟩
        · intro v hv
          rcases List.mem_append.mp hv with h1 | h1
          · obtain ⟨c1, c2⟩ := inv.old v h1
            exact ⟨by rw [hrht]; exact closed_mono H n _ _ _ _ c1, c2⟩
          · simp at h1; subst h1; exact ⟨s3, inv.zo⟩
        · intro x hx
          rw [hroots] at hx
          rcases List.mem_append.mp hx with h1 | h1
          · left
            unfold keyAfter
            rcases inv.keys x h1 with h2 | h2
            · unfold keyAfter at h2
              simp only
              rcases hk' with h3 | h3 <;> rcases h2 with h4 | h4 <;> omega
            · simp only
              rcases hk' with h3 | h3 <;> omega
          · simp at h1; subst h1; exact Or.inr ⟨rfl, rfl⟩
      obtain ⟨r1, r2, r3⟩ := ih db1 _ _ _ _ inv1 hk.2 (fun x hx => hpos x (List.mem_cons_of_mem _ hx)) db2 roots2 hrun
      refine ⟨by simp [versions, r1, s1], r2, ?_⟩
      intro v hv
      apply r3 v
      simp only [versions, List.mem_append, List.mem_cons, List.not_mem_nil, or_false] at hv ⊢
      rcases hv with h1 | h1 | h1 | h1
      · exact Or.inl (Or.inl h1)
      · exact Or.inl (Or.inr h1)
      · exact Or.inr (Or.inl h1)
      · exact Or.inr (Or.inr h1)

/-- **updatable tree, whole history** (rollup exit tree): starting from the empty tree, after ANY sequence of upserts that
    all succeed (positions below `2^n`, (block, position-in-block) keys strictly increasing — what the driver delivers —,
    no tree state recurring), for EVERY root the tree has recorded, i.e. for every version `k`, the value served for a
    written position is the value last written to it as of that version, and the proof served hashes with it to exactly
    that root — however many later upserts have overwritten the position since. -/
theorem C08_updatable_history (H : HashAlg α) (hinj : H.Inj) (n : Nat) (us : List (Ups α))
    (hk : KeysInc (0, 0) us) (hpos : ∀ u ∈ us, u.pos < 2^n)
    (db : TreeDb α) (roots : List α) (hrun : runUps H n {} us = some (db, roots)) :
    let vs := versions (fun _ => H.zero) (fun _ => False) us
    roots = vs.map (fun v => tn H v.1 n 0) ∧
    ∀ v ∈ vs, ∀ p, v.2 p → p < 2^n →
      getLeaf n db p (tn H v.1 n 0) = .ok (v.1 p) ∧
      calcRoot H (v.1 p) (getProof H n db p (tn H v.1 n 0)) p = tn H v.1 n 0 := by
  intro vs
  have inv0 : UInv H n ({} : TreeDb α) (fun _ => H.zero) (fun _ => False) [] (0, 0) := by
    refine ⟨by intro nd h; simp at h, ?_, fun _ _ => rfl, ?_, by simp, by simp⟩
    · unfold lastRootHash getLastRoot
      simp only [List.foldl_nil]
      exact (tn_zero_of H _ n 0 (fun _ _ => rfl)).symm
    · intro h q _ ⟨p, hp, _⟩; exact absurd hp (by simp)
  obtain ⟨r1, r2, r3⟩ := runUps_inv H hinj n us {} _ _ [] (0, 0) inv0 hk hpos db roots hrun
  refine ⟨r1, ?_⟩
  intro v hv p hp hpb
  obtain ⟨c1, c2⟩ := r3 v (by simp only [List.nil_append, List.mem_cons]; exact Or.inr hv)
  constructor
  · exact getLeaf_spec H hinj n db v.1 v.2 r2 c1 p hpb hp
  · unfold getProof
    rw [getSiblings_spec H hinj n db.rht v.1 v.2 r2 c1 c2 p hpb]
    exact calcRoot_spec H n v.1 p hpb

/-- non-vacuity in the free term algebra: rollups 1 and 3 verified, rollup 1 verified again; the first version still serves
    rollup 1's first value under the first root -/
example :
    let us : List (Ups Term) := [⟨1, 0, 0, .leaf 7⟩, ⟨1, 1, 2, .leaf 8⟩, ⟨2, 0, 0, .leaf 9⟩]
    ((runUps TermHash 3 {} us).map (fun x => x.2.length)) = some 3 ∧ KeysInc (0, 0) us := by
  refine ⟨by decide, ?_⟩
  simp [KeysInc]

/-! ### the root table along a run, and runs in two parts (used by C04 for reorgs of the updatable tree) -/

def rowsOf (H : HashAlg α) (n : Nat) (f : Nat → α) : List (Ups α) → List (RootRow α)
  | [] => []
  | u :: rest =>
    { hash := tn H (updateFn f u.pos u.val) n 0, index := u.pos, blockNum := u.bn, blockPos := u.bp } ::
      rowsOf H n (updateFn f u.pos u.val) rest

def finalF (f : Nat → α) (us : List (Ups α)) : Nat → α := us.foldl (fun g u => updateFn g u.pos u.val) f
def finalW (W : Nat → Prop) (us : List (Ups α)) : Nat → Prop := us.foldl (fun V u => fun p => V p ∨ p = u.pos) W
def finalK (k : Nat × Nat) (us : List (Ups α)) : Nat × Nat := us.foldl (fun _ u => (u.bn, u.bp)) k

/-- one successful upsert carries the invariant to the next version -/
theorem upsert_inv (H : HashAlg α) (hinj : H.Inj) (n : Nat) (db : TreeDb α) (f : Nat → α) (W : Nat → Prop)
    (vs : List ((Nat → α) × (Nat → Prop))) (k : Nat × Nat) (inv : UInv H n db f W vs k) (u : Ups α)
    (hk : u.bn > k.1 ∨ (u.bn = k.1 ∧ u.bp > k.2)) (hi : u.pos < 2^n) (r : α) (db1 : TreeDb α)
    (hup : upsertLeaf H n db u.bn u.bp u.pos u.val = .ok (r, db1)) :
    UInv H n db1 (updateFn f u.pos u.val) (fun p => W p ∨ p = u.pos) (vs ++ [(f, W)]) (u.bn, u.bp) ∧
    r = tn H (updateFn f u.pos u.val) n 0 ∧
    db1.roots = db.roots ++ [{ hash := r, index := u.pos, blockNum := u.bn, blockPos := u.bp }] ∧
    ∃ ns, db1.rht = storeNodes db.rht ns := by
  obtain ⟨s1, s2, s3, s4, _⟩ := C08_updatable_step H hinj n db f W inv.cons inv.cur inv.zo inv.last u.bn u.bp u.pos u.val hi r db1 hup
  obtain ⟨hroots, ns, hrht⟩ := upsertLeaf_shape H n db u.bn u.bp u.pos u.val r db1 hup
  have hlast : lastRootHash H n db1 = tn H (updateFn f u.pos u.val) n 0 := by
    unfold lastRootHash
    have : getLastRoot db1 = some { hash := r, index := u.pos, blockNum := u.bn, blockPos := u.bp } := by
      apply lastRoot_append db1 db.roots _ hroots
      intro x hx
      unfold RootRow.after
      simp only [Bool.or_eq_true, decide_eq_true_eq, Bool.and_eq_true, beq_iff_eq]
      rcases inv.keys x hx with h1 | h1
      · unfold keyAfter at h1
        rcases hk with h2 | h2 <;> rcases h1 with h3 | h3 <;> omega
      · rcases hk with h2 | h2 <;> omega
    rw [this, s1]
  have hzo' : ZeroOutside H (updateFn f u.pos u.val) (fun p => W p ∨ p = u.pos) := by
    intro j hj
    simp only [updateFn]
    rw [if_neg (fun e => hj (Or.inr e))]
    exact inv.zo j (fun hw => hj (Or.inl hw))
  refine ⟨⟨s2, hlast, hzo', s4, ?_, ?_⟩, s1, hroots, ns, hrht⟩
  · intro v hv
    rcases List.mem_append.mp hv with h1 | h1
    · obtain ⟨c1, c2⟩ := inv.old v h1
      exact ⟨by rw [hrht]; exact closed_mono H n _ _ _ _ c1, c2⟩
    · simp at h1; subst h1; exact ⟨s3, inv.zo⟩
  · intro x hx
    rw [hroots] at hx
    rcases List.mem_append.mp hx with h1 | h1
    · left
      unfold keyAfter
      rcases inv.keys x h1 with h2 | h2
      · unfold keyAfter at h2
        simp only
        rcases hk with h3 | h3 <;> rcases h2 with h4 | h4 <;> omega
      · simp only
        rcases hk with h3 | h3 <;> omega
    · simp at h1; subst h1; exact Or.inr ⟨rfl, rfl⟩

/-- a whole run: the final state satisfies the invariant for the final version, and the root table grew by exactly
    one row per upsert -/
theorem runUps_full (H : HashAlg α) (hinj : H.Inj) (n : Nat) : ∀ (us : List (Ups α)) (db : TreeDb α) (f : Nat → α)
    (W : Nat → Prop) (vs : List ((Nat → α) × (Nat → Prop))) (k : Nat × Nat),
    UInv H n db f W vs k → KeysInc k us → (∀ u ∈ us, u.pos < 2^n) →
    ∀ db' roots, runUps H n db us = some (db', roots) →
      (∃ vs', UInv H n db' (finalF f us) (finalW W us) vs' (finalK k us) ∧ ∀ v ∈ vs, v ∈ vs') ∧
      db'.roots = db.roots ++ rowsOf H n f us ∧
      ∃ ns, db'.rht = storeNodes db.rht ns := by
  intro us
  induction us with
  | nil =>
    intro db f W vs k inv _ _ db' roots h
    simp only [runUps, Option.some.injEq, Prod.mk.injEq] at h
    rw [← h.1]
    exact ⟨⟨vs, inv, fun v hv => hv⟩, by simp [rowsOf], [], rfl⟩
  | cons u rest ih =>
    intro db f W vs k inv hk hpos db' roots h
    simp only [runUps] at h
    cases hup : upsertLeaf H n db u.bn u.bp u.pos u.val with
    | error e => rw [hup] at h; simp at h
    | ok res =>
      obtain ⟨r, db1⟩ := res
      rw [hup] at h
      simp only [Option.map_eq_some_iff] at h
      obtain ⟨⟨db2, roots2⟩, hrun, heq⟩ := h
      simp only [Prod.mk.injEq] at heq
      obtain ⟨rfl, rfl⟩ := heq
      obtain ⟨inv1, s1, hroots, ns1, hrht1⟩ := upsert_inv H hinj n db f W vs k inv u hk.1 (hpos u (by simp)) r db1 hup
      obtain ⟨⟨vs', i2, hsub⟩, hr2, ns2, hrht2⟩ := ih db1 _ _ _ _ inv1 hk.2 (fun x hx => hpos x (List.mem_cons_of_mem _ hx)) db2 roots2 hrun
      refine ⟨⟨vs', i2, fun v hv => hsub v (List.mem_append_left _ hv)⟩, ?_, ?_⟩
      · rw [hr2, hroots, s1]; simp [rowsOf]
      · refine ⟨ns1 ++ ns2, ?_⟩
        rw [hrht2, hrht1]
        unfold storeNodes
        rw [List.foldl_append]

theorem runUps_append (H : HashAlg α) (n : Nat) : ∀ (us1 us2 : List (Ups α)) (db : TreeDb α) (db' : TreeDb α) (roots : List α),
    runUps H n db (us1 ++ us2) = some (db', roots) →
    ∃ db1 r1 r2, runUps H n db us1 = some (db1, r1) ∧ runUps H n db1 us2 = some (db', r2) ∧ roots = r1 ++ r2 := by
  intro us1
  induction us1 with
  | nil => intro us2 db db' roots h; exact ⟨db, [], roots, rfl, h, rfl⟩
  | cons u rest ih =>
    intro us2 db db' roots h
    simp only [List.cons_append, runUps] at h ⊢
    cases hup : upsertLeaf H n db u.bn u.bp u.pos u.val with
    | error e => rw [hup] at h; simp at h
    | ok res =>
      obtain ⟨r, dbx⟩ := res
      rw [hup] at h
      simp only [Option.map_eq_some_iff] at h
      obtain ⟨⟨db2, roots2⟩, hrun, heq⟩ := h
      simp only [Prod.mk.injEq] at heq
      obtain ⟨rfl, rfl⟩ := heq
      obtain ⟨db1, r1, r2, a, b, c⟩ := ih us2 dbx db2 roots2 hrun
      refine ⟨db1, r :: r1, r2, ?_, b, by rw [c]; rfl⟩
      simp only [hup, a, Option.map_some]

theorem rowsOf_bn (H : HashAlg α) (n : Nat) : ∀ (us : List (Ups α)) (f : Nat → α) (x : RootRow α),
    x ∈ rowsOf H n f us → ∃ u ∈ us, x.blockNum = u.bn := by
  intro us
  induction us with
  | nil => intro f x h; simp [rowsOf] at h
  | cons u rest ih =>
    intro f x h
    simp only [rowsOf, List.mem_cons] at h
    rcases h with h | h
    · exact ⟨u, by simp, by rw [h]⟩
    · obtain ⟨y, hy, e⟩ := ih _ x h; exact ⟨y, List.mem_cons_of_mem _ hy, e⟩

end Aggkit
