import AggkitModel.Proofs.TreeHistory
set_option linter.unusedSectionVars false
/-
C08 — every Merkle proof served verifies against the root it was asked for.
Property theorems only. Height `n` and the hash algebra are arbitrary; `H.Inj` is collision-freedom.
Histories are unbounded lists of blocks (committed or rolled back at any point, incl. a fault inside
AddLeaf), restarts and reorgs; `WFhistory` states what the chain guarantees (consecutive deposit
counts, increasing block numbers, keccak leaves ≠ 0, capacity).
-/
namespace Aggkit
variable {α : Type} [DecidableEq α]

/-- **append-only trees** (exit tree, L1 info tree): after ANY well-formed history, for every stored
    version `m` (historical roots included) and every position `i < m`, the leaf served is the `i`-th
    surviving leaf and the proof served hashes with it to exactly that version's root. -/
theorem C08_appendonly (H : HashAlg α) (hinj : H.Inj) (n : Nat) (ops : List (HiOp α))
    (wf : WFhistory H n [] ops) (s : TM α) (ls : List α)
    (hs : s = runHistory H n (TM.init H n) ops) (hls : ls = (absHistory [] ops).map (·.2)) :
    ∀ m i, m ≤ ls.length → i < m →
      getLeaf n s.db i (vroot H n ls m) = .ok (ls.getD i H.zero) ∧
      calcRoot H (ls.getD i H.zero) (getProof H n s.db i (vroot H n ls m)) i = vroot H n ls m := by
  intro m i hm hi
  have inv := runHistory_inv H hinj n ops (TM.init H n) [] (init_inv H n) wf
  rw [← hs] at inv
  have iao := inv.ao
  rw [← hls] at iao
  have hcl := iao.closed m hm
  have hb : i < 2^n := by have := iao.bound; omega
  have hleaf : leafFn H (ls.take m) i = ls.getD i H.zero := by rw [leafFn_take_lt H ls m i hi]; rfl
  have hzo : ZeroOutside H (leafFn H (ls.take m)) (fun p => p < m) := by
    intro j hj; exact leafFn_ge H _ j (by simp; omega)
  constructor
  · have := getLeaf_spec H hinj n s.db _ _ iao.cons hcl i hb hi
    rw [hleaf] at this; exact this
  · unfold getProof
    rw [show vroot H n ls m = tn H (leafFn H (ls.take m)) n 0 from rfl,
      getSiblings_spec H hinj n s.db.rht _ _ iao.cons hcl hzo i hb, ← hleaf]
    exact calcRoot_spec H n _ i hb

/-- the versions quantified over in `C08_appendonly` are exactly the rows of the root table:
    row `i` holds `vroot … (i+1)` with position `i` (so "every root the node has recorded" is covered) -/
theorem C08_roots_are_versions (H : HashAlg α) (hinj : H.Inj) (n : Nat) (ops : List (HiOp α))
    (wf : WFhistory H n [] ops) :
    let s := runHistory H n (TM.init H n) ops
    let ls := (absHistory [] ops).map (·.2)
    s.db.roots.length = ls.length ∧
    ∀ i, i < ls.length → ∃ r, s.db.roots[i]? = some r ∧ r.hash = vroot H n ls (i+1) ∧ r.index = i :=
  (runHistory_inv H hinj n ops (TM.init H n) [] (init_inv H n) wf).ao.roots

/-- **updatable tree** (rollup exit tree): one upsert on a store that is closed for the current version
    yields the spec root of the updated leaves, keeps the store closed for the old and the new version,
    and every written position of the new version is served with a verifying proof. -/
theorem C08_updatable_step (H : HashAlg α) (hinj : H.Inj) (n : Nat) (db : TreeDb α) (f : Nat → α) (W : Nat → Prop)
    (hcons : Consistent H db.rht) (hcl : Closed H n db.rht f W) (hzo : ZeroOutside H f W)
    (hroot : lastRootHash H n db = tn H f n 0)
    (bn bp i : Nat) (v : α) (hi : i < 2^n) (root : α) (db' : TreeDb α)
    (hup : upsertLeaf H n db bn bp i v = .ok (root, db')) :
    let f' := updateFn f i v
    root = tn H f' n 0 ∧ Consistent H db'.rht ∧ Closed H n db'.rht f W ∧
    Closed H n db'.rht f' (fun p => W p ∨ p = i) ∧
    (∀ p, (W p ∨ p = i) → p < 2^n →
      getLeaf n db' p root = .ok (f' p) ∧ calcRoot H (f' p) (getProof H n db' p root) p = root) := by
  intro f'
  unfold upsertLeaf at hup
  simp only [hroot] at hup
  rw [getSiblings_spec H hinj n db.rht f W hcons hcl hzo i hi] at hup
  have hs : (List.range n).map (sibT H f i) = (List.range' 0 n).map (sibT H f' i) := by
    rw [List.range_eq_range']
    apply List.map_congr_left
    intro h _; exact (sibT_update H f i h v).symm
  have hloop := upsertLoop_spec H f' i n 0 []
  simp only [Nat.pow_zero, Nat.div_one, tn_zero, Nat.zero_add, List.nil_append] at hloop
  have hv : f' i = v := by simp [f', updateFn]
  rw [hs, ← hv, hloop, Nat.div_eq_of_lt hi] at hup
  simp only at hup
  split at hup
  · simp at hup
  · rename_i dbr hsr
    simp only [Except.ok.injEq, Prod.mk.injEq] at hup
    obtain ⟨e1, e2⟩ := hup
    have hrht : dbr.rht = db.rht := by
      unfold storeRoot at hsr; split at hsr
      · simp at hsr
      · simp at hsr; rw [← hsr]
    subst e2
    have c1 : Consistent H (storeNodes dbr.rht (pathNodes H n f' i)) := by
      rw [hrht]; exact storeNodes_consistent H _ _ hcons (pathNodes_consistent H n _ _)
    have c2 : Closed H n (storeNodes dbr.rht (pathNodes H n f' i)) f W := by
      rw [hrht]; exact closed_mono H n _ _ _ _ hcl
    have c3 : Closed H n (storeNodes dbr.rht (pathNodes H n f' i)) f' (fun p => W p ∨ p = i) := by
      rw [hrht]; exact closed_update H n db.rht f W i v hcl
    have hzo' : ZeroOutside H f' (fun p => W p ∨ p = i) := by
      intro j hj
      simp only [f', updateFn]
      rw [if_neg (fun e => hj (Or.inr e))]
      exact hzo j (fun hw => hj (Or.inl hw))
    refine ⟨e1.symm, c1, c2, c3, ?_⟩
    intro p hp hpb
    rw [← e1]
    constructor
    · exact getLeaf_spec H hinj n _ f' _ c1 c3 p hpb hp
    · unfold getProof
      simp only [pathNodes] at c1 c3 ⊢
      rw [getSiblings_spec H hinj n _ f' _ c1 c3 hzo' p hpb]
      exact calcRoot_spec H n f' p hpb

/-- non-vacuity: the free term algebra is a collision-free hash algebra, and a concrete history
    (a committed block, a rolled-back block, a reorg, a restart) is well-formed -/
inductive Term where
  | z : Term
  | leaf : Nat → Term
  | node : Term → Term → Term
  deriving DecidableEq, Repr

def TermHash : HashAlg Term := { node := Term.node, zero := Term.z }

example : TermHash.Inj := by
  intro a b c d h; simp [TermHash] at h; exact h

example : WFhistory TermHash 3 ([] : List (Nat × Term))
    [ .block 1 [(0, .leaf 10), (1, .leaf 11)] .commit,
      .block 2 [(2, .leaf 12), (3, .leaf 13)] (.rollbackAfter 2 true),
      .restart,
      .block 2 [(2, .leaf 22)] .commit,
      .reorg 2,
      .block 2 [(2, .leaf 32), (3, .leaf 33)] .commit ] := by
  simp [WFhistory, WFop, HiOp.abs, TermHash, List.range']

end Aggkit
