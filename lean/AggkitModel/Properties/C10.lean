import AggkitModel.Model.Certificate
import AggkitModel.Proofs.Bytes
import AggkitModel.Properties.C19
import AggkitModel.Generated.CertFacts
/-
C10 — the signature commits to exactly what is sent and stored.
Proved here: the commitments are injective in every field they cover (so "changing any covered field changes the
commitment", for a collision-free hash), the exit leaf survives the wire conversion (`C03_wire_leaf`, Properties/C03),
and the PP commitment does not read the field that is filled in after signing. The equality of the signed hash with
the commitment of the submitted message, and of the stored JSON copy with the submitted message, are observed on the
real code by the harness monitors (aggsender and certcodec scenarios) — JSON is not modelled.
-/
namespace Aggkit.Certificate
open Aggkit Aggkit.GlobalIndex

def KLen' (K : Bytes → Bytes) : Prop := ∀ m, (K m).length = 32
/-- no collisions (the standard idealisation of Keccak-256) -/
def KInj (K : Bytes → Bytes) : Prop := ∀ a b, K a = K b → a = b

/-- concatenating chunks of one fixed positive width is injective -/
theorem flatMap_fixed_inj {α : Type} (f : α → Bytes) (n : Nat) (hn : 0 < n) :
    ∀ (l1 l2 : List α), (∀ x ∈ l1, (f x).length = n) → (∀ y ∈ l2, (f y).length = n) →
      l1.flatMap f = l2.flatMap f → l1.map f = l2.map f := by
  intro l1
  induction l1 with
  | nil =>
    intro l2 _ h2 h
    cases l2 with
    | nil => rfl
    | cons y ys =>
      exfalso
      have := congrArg List.length h
      simp only [List.flatMap_nil, List.length_nil, List.flatMap_cons, List.length_append] at this
      have := h2 y (List.mem_cons_self ..)
      omega
  | cons x xs ih =>
    intro l2 h1 h2 h
    cases l2 with
    | nil =>
      exfalso
      have := congrArg List.length h
      simp only [List.flatMap_nil, List.length_nil, List.flatMap_cons, List.length_append] at this
      have := h1 x (List.mem_cons_self ..)
      omega
    | cons y ys =>
      simp only [List.flatMap_cons] at h
      have hl : (f x).length = (f y).length := by
        rw [h1 x (List.mem_cons_self ..), h2 y (List.mem_cons_self ..)]
      obtain ⟨e1, e2⟩ := List.append_inj h hl
      simp only [List.map_cons, List.cons.injEq]
      exact ⟨e1, ih ys (fun a ha => h1 a (List.mem_cons_of_mem _ ha)) (fun a ha => h2 a (List.mem_cons_of_mem _ ha)) e2⟩

theorem fillBE_inj (k x y : Nat) (hx : x < 256 ^ k) (hy : y < 256 ^ k) (h : fillBE k x = fillBE k y) : x = y := by
  have := congrArg ofBE h
  rwa [ofBE_fillBE, ofBE_fillBE, Nat.mod_eq_of_lt hx, Nat.mod_eq_of_lt hy] at this

theorem bigToLE32_length (g : Nat) : (bigToLE32 g).length = 32 := by
  unfold bigToLE32; simp; omega

theorem bigToLE32_inj (x y : Nat) (hx : x < 2^256) (hy : y < 2^256) (h : bigToLE32 x = bigToLE32 y) : x = y := by
  have := congrArg ofLE h
  rwa [ofLE_bigToLE32 x hx, ofLE_bigToLE32 y hy] at this


theorem map_transfer {α β γ : Type} (f : α → β) (g : α → γ) :
    ∀ (l1 l2 : List α), (∀ x ∈ l1, ∀ y ∈ l2, f x = f y → g x = g y) → l1.map f = l2.map f → l1.map g = l2.map g := by
  intro l1
  induction l1 with
  | nil => intro l2 _ h; cases l2 with
    | nil => rfl
    | cons y ys => simp at h
  | cons x xs ih =>
    intro l2 hinj h
    cases l2 with
    | nil => simp at h
    | cons y ys =>
      simp only [List.map_cons, List.cons.injEq] at h ⊢
      exact ⟨hinj x (List.mem_cons_self ..) y (List.mem_cons_self ..) h.1,
        ih ys (fun a ha b hb => hinj a (List.mem_cons_of_mem _ ha) b (List.mem_cons_of_mem _ hb)) h.2⟩

/-- 32-bit rollup and leaf index (what the decoded global index of a claim always satisfies, C19) -/
def ImpWF (i : ImpExit) : Prop := i.rollup < 2^32 ∧ i.leaf < 2^32

theorem gi_lt (i : ImpExit) (h : ImpWF i) : i.gi < 2^256 := by
  unfold ImpExit.gi
  rw [C19_layout i.mainnet i.rollup i.leaf h.1 h.2]
  have : (if i.mainnet = true then 2^64 else i.rollup * 2^32) < 2^65 := by
    split
    · decide
    · have := h.1; omega
  have := h.2
  omega

/-- **PP commitment**: for a collision-free hash, two certificates with the same `PPHashToSign` have the same new
    local exit root and the same sequence of imported global indexes — changing either changes the commitment -/
theorem C10_pp_sensitive (K : Bytes → Bytes) (hL : KLen' K) (hI : KInj K) (c c' : Cert)
    (h32 : c.newLER.length = 32) (h32' : c'.newLER.length = 32)
    (hw : ∀ i ∈ c.imps, ImpWF i) (hw' : ∀ i ∈ c'.imps, ImpWF i) (h : ppCommit K c = ppCommit K c') :
    c.newLER = c'.newLER ∧ c.imps.map (·.gi) = c'.imps.map (·.gi) := by
  unfold ppCommit at h
  obtain ⟨e1, e2⟩ := List.append_inj (hI _ _ h) (by rw [h32, h32'])
  refine ⟨e1, ?_⟩
  have e3 := flatMap_fixed_inj (giHash K) 32 (by decide) c.imps c'.imps (fun x _ => hL _) (fun y _ => hL _) (hI _ _ e2)
  refine map_transfer (giHash K) (·.gi) _ _ ?_ e3
  intro x hx y hy hxy
  unfold giHash at hxy
  exact bigToLE32_inj _ _ (gi_lt x (hw x hx)) (gi_lt y (hw' y hy)) (hI _ _ hxy)

/-- the part of the aggchain data the FEP commitment reads -/
def paramsWord (K : Bytes → Bytes) (c : Cert) : Bytes :=
  match c.aggchainParams with
  | some p => p
  | none => K []

theorem fepChunk_length (K : Bytes → Bytes) (hL : KLen' K) (i : ImpExit) : (fepChunk K i).length = 64 := by
  unfold fepChunk exitHash; rw [List.length_append, bigToLE32_length, hL]

/-- **FEP commitment**: same `FEPHashToSign` ⇒ same new local exit root, same height, same aggchain parameters, and the
    same sequence of (global index, exit leaf) pairs of the imported exits -/
theorem C10_fep_sensitive (K : Bytes → Bytes) (hL : KLen' K) (hI : KInj K) (c c' : Cert)
    (h32 : c.newLER.length = 32) (h32' : c'.newLER.length = 32) (hh : c.height < 2^64) (hh' : c'.height < 2^64)
    (hp : (paramsWord K c).length = 32) (hp' : (paramsWord K c').length = 32)
    (hw : ∀ i ∈ c.imps, ImpWF i) (hw' : ∀ i ∈ c'.imps, ImpWF i) (h : fepCommit K c = fepCommit K c') :
    c.newLER = c'.newLER ∧ c.height = c'.height ∧ paramsWord K c = paramsWord K c' ∧
    c.imps.map (fun i => (i.gi, exitHash K i.exit)) = c'.imps.map (fun i => (i.gi, exitHash K i.exit)) := by
  unfold fepCommit at h
  have h0 := hI _ _ h
  change c.newLER ++ K (c.imps.flatMap (fepChunk K)) ++ fillLE 8 c.height ++ paramsWord K c =
    c'.newLER ++ K (c'.imps.flatMap (fepChunk K)) ++ fillLE 8 c'.height ++ paramsWord K c' at h0
  obtain ⟨h1, eP⟩ := List.append_inj' h0 (by rw [hp, hp'])
  obtain ⟨h2, eH⟩ := List.append_inj' h1 (by simp [fillLE])
  obtain ⟨eL, eX⟩ := List.append_inj h2 (by rw [h32, h32'])
  have p8 : (256:Nat)^8 = 2^64 := by decide
  have eh : c.height = c'.height := by
    unfold fillLE at eH
    exact fillBE_inj 8 _ _ (by rw [p8]; exact hh) (by rw [p8]; exact hh') (by have := congrArg List.reverse eH; simpa using this)
  refine ⟨eL, eh, eP, ?_⟩
  have e3 := flatMap_fixed_inj (fepChunk K) 64 (by decide) c.imps c'.imps (fun x _ => fepChunk_length K hL x)
    (fun y _ => fepChunk_length K hL y) (hI _ _ eX)
  refine map_transfer (fepChunk K) (fun i => (i.gi, exitHash K i.exit)) _ _ ?_ e3
  intro x hx y hy hxy
  unfold fepChunk at hxy
  obtain ⟨a, b⟩ := List.append_inj hxy (by rw [bigToLE32_length, bigToLE32_length])
  rw [bigToLE32_inj _ _ (gi_lt x (hw x hx)) (gi_lt y (hw' y hy)) a, b]

/-- field widths of an exit as the node builds it -/
structure ExitWF (e : Exit) : Prop where
  leafType : e.leafType < 256
  origNet : e.origNet < 2^32
  destNet : e.destNet < 2^32
  origAddr : e.origAddr.length = 20
  destAddr : e.destAddr.length = 20
  amount : e.amount < 2^256
  metadata : e.metadata.length = 0 ∨ e.metadata.length = 32

/-- the metadata word the exit hash reads: an empty metadata hashes like `keccak("")` -/
def metaWord (K : Bytes → Bytes) (e : Exit) : Bytes := if e.metadata.length = 0 then K [] else e.metadata

/-- **exit leaf**: same `BridgeExit.Hash` ⇒ same leaf type, token, destination, amount and metadata word -/
theorem C10_exit_sensitive (K : Bytes → Bytes) (hL : KLen' K) (hI : KInj K) (e e' : Exit) (hw : ExitWF e) (hw' : ExitWF e')
    (h : exitHash K e = exitHash K e') :
    e.leafType = e'.leafType ∧ e.origNet = e'.origNet ∧ e.origAddr = e'.origAddr ∧ e.destNet = e'.destNet ∧
    e.destAddr = e'.destAddr ∧ e.amount = e'.amount ∧ metaWord K e = metaWord K e' := by
  unfold exitHash at h
  have h0 := hI _ _ h
  change [e.leafType] ++ fillBE 4 e.origNet ++ e.origAddr ++ fillBE 4 e.destNet ++ e.destAddr ++ fillBE 32 e.amount ++
      metaWord K e =
    [e'.leafType] ++ fillBE 4 e'.origNet ++ e'.origAddr ++ fillBE 4 e'.destNet ++ e'.destAddr ++ fillBE 32 e'.amount ++
      metaWord K e' at h0
  have lm : ∀ x : Exit, ExitWF x → (metaWord K x).length = 32 := by
    intro x hx; unfold metaWord
    rcases hx.metadata with h | h
    · rw [if_pos h]; exact hL _
    · rw [if_neg (by omega)]; exact h
  obtain ⟨h1, eM⟩ := List.append_inj' h0 (by rw [lm e hw, lm e' hw'])
  obtain ⟨h2, eA⟩ := List.append_inj' h1 (by simp)
  obtain ⟨h3, eDA⟩ := List.append_inj' h2 (by rw [hw.destAddr, hw'.destAddr])
  obtain ⟨h4, eDN⟩ := List.append_inj' h3 (by simp)
  obtain ⟨h5, eOA⟩ := List.append_inj' h4 (by rw [hw.origAddr, hw'.origAddr])
  obtain ⟨h6, eON⟩ := List.append_inj' h5 (by simp)
  have p4 : (256:Nat)^4 = 2^32 := by decide
  have p32 : (256:Nat)^32 = 2^256 := by decide
  refine ⟨by simpa using h6, fillBE_inj 4 _ _ (by rw [p4]; exact hw.origNet) (by rw [p4]; exact hw'.origNet) eON, eOA,
    fillBE_inj 4 _ _ (by rw [p4]; exact hw.destNet) (by rw [p4]; exact hw'.destNet) eDN, eDA,
    fillBE_inj 32 _ _ (by rw [p32]; exact hw.amount) (by rw [p32]; exact hw'.amount) eA, eM⟩

/-- **certificate id**: same `Certificate.Hash` ⇒ same network, height, previous and new local exit root, and the same
    sequences of exit leaves and of imported-exit hashes -/
theorem C10_id_sensitive (K : Bytes → Bytes) (hL : KLen' K) (hI : KInj K) (c c' : Cert)
    (hn : c.networkID < 2^32) (hn' : c'.networkID < 2^32) (hh : c.height < 2^64) (hh' : c'.height < 2^64)
    (hp : c.prevLER.length = 32) (hp' : c'.prevLER.length = 32) (h32 : c.newLER.length = 32) (h32' : c'.newLER.length = 32)
    (h : certHash K c = certHash K c') :
    c.networkID = c'.networkID ∧ c.height = c'.height ∧ c.prevLER = c'.prevLER ∧ c.newLER = c'.newLER ∧
    c.exits.map (exitHash K) = c'.exits.map (exitHash K) ∧ c.imps.map (impHash K) = c'.imps.map (impHash K) := by
  unfold certHash at h
  have h0 := hI _ _ h
  obtain ⟨h1, eI⟩ := List.append_inj' h0 (by rw [hL, hL])
  obtain ⟨h2, eE⟩ := List.append_inj' h1 (by rw [hL, hL])
  obtain ⟨h3, eN⟩ := List.append_inj' h2 (by rw [h32, h32'])
  obtain ⟨h4, eP⟩ := List.append_inj' h3 (by rw [hp, hp'])
  obtain ⟨eNet, eH⟩ := List.append_inj' h4 (by simp)
  have p4 : (256:Nat)^4 = 2^32 := by decide
  have p8 : (256:Nat)^8 = 2^64 := by decide
  refine ⟨fillBE_inj 4 _ _ (by rw [p4]; exact hn) (by rw [p4]; exact hn') eNet,
    fillBE_inj 8 _ _ (by rw [p8]; exact hh) (by rw [p8]; exact hh') eH, eP, eN, ?_, ?_⟩
  · exact flatMap_fixed_inj (exitHash K) 32 (by decide) _ _ (fun x _ => hL _) (fun y _ => hL _) (hI _ _ eE)
  · exact flatMap_fixed_inj (impHash K) 32 (by decide) _ _ (fun x _ => hL _) (fun y _ => hL _) (hI _ _ eI)

/-- an imported exit's hash covers its exit leaf, its claim data hash and its global index -/
theorem C10_imp_sensitive (K : Bytes → Bytes) (hL : KLen' K) (hI : KInj K) (i i' : ImpExit)
    (hc : i.claimHash.length = 32) (hc' : i'.claimHash.length = 32) (hw : ImpWF i) (hw' : ImpWF i')
    (h : impHash K i = impHash K i') :
    exitHash K i.exit = exitHash K i'.exit ∧ i.claimHash = i'.claimHash ∧ i.gi = i'.gi := by
  unfold impHash at h
  have h0 := hI _ _ h
  obtain ⟨h1, eG⟩ := List.append_inj' h0 (by unfold giHash; rw [hL, hL])
  obtain ⟨eE, eC⟩ := List.append_inj' h1 (by rw [hc, hc'])
  unfold giHash at eG
  exact ⟨eE, eC, bigToLE32_inj _ _ (gi_lt i hw) (gi_lt i' hw') (hI _ _ eG)⟩

/-- the PP commitment does not read the field that is filled in after signing (`AggchainData`): the hash handed to the
    signer before the signature is attached is the commitment of the final certificate -/
theorem C10_signed_is_commit (K : Bytes → Bytes) (c : Cert) (x : Option Bytes) :
    ppCommit K { c with aggchainParams := x } = ppCommit K c := rfl

/-- the rollup index of a mainnet-flagged global index is not covered (the encoder ignores it, C19): stated, not hidden -/
example : generate true 5 7 = generate true 0 7 := by decide


/-! ### non-vacuity: the hypotheses on `K` are satisfiable in the model (`Bytes` are lists of naturals) -/

def encList : List Nat → Nat
  | [] => 0
  | x :: xs => 2 ^ x * (2 * encList xs + 1)

theorem pow_odd_inj : ∀ (x y a b : Nat), 2 ^ x * (2 * a + 1) = 2 ^ y * (2 * b + 1) → x = y ∧ a = b := by
  intro x
  induction x with
  | zero =>
    intro y a b h
    cases y with
    | zero => simp at h; exact ⟨rfl, by omega⟩
    | succ y =>
      exfalso
      have e : 2 ^ (y + 1) * (2 * b + 1) = 2 * (2 ^ y * (2 * b + 1)) := by rw [Nat.pow_succ]; ac_rfl
      rw [e] at h
      generalize 2 ^ y * (2 * b + 1) = t at h
      simp at h; omega
  | succ x ih =>
    intro y a b h
    cases y with
    | zero =>
      exfalso
      have e : 2 ^ (x + 1) * (2 * a + 1) = 2 * (2 ^ x * (2 * a + 1)) := by rw [Nat.pow_succ]; ac_rfl
      rw [e] at h
      generalize 2 ^ x * (2 * a + 1) = t at h
      simp at h; omega
    | succ y =>
      rw [Nat.pow_succ, Nat.pow_succ, Nat.mul_right_comm, Nat.mul_right_comm (2 ^ y)] at h
      have := ih y a b (Nat.eq_of_mul_eq_mul_right (by decide) h)
      exact ⟨by omega, this.2⟩

theorem encList_inj : ∀ (l1 l2 : List Nat), encList l1 = encList l2 → l1 = l2 := by
  intro l1
  induction l1 with
  | nil =>
    intro l2 h
    cases l2 with
    | nil => rfl
    | cons y ys =>
      exfalso
      simp only [encList] at h
      have : 0 < 2 ^ y * (2 * encList ys + 1) := Nat.mul_pos (Nat.two_pow_pos y) (by omega)
      omega
  | cons x xs ih =>
    intro l2 h
    cases l2 with
    | nil =>
      exfalso
      simp only [encList] at h
      have : 0 < 2 ^ x * (2 * encList xs + 1) := Nat.mul_pos (Nat.two_pow_pos x) (by omega)
      omega
    | cons y ys =>
      simp only [encList] at h
      obtain ⟨e1, e2⟩ := pow_odd_inj _ _ _ _ h
      rw [e1, ih ys e2]

def demoK (m : Bytes) : Bytes := encList m :: List.replicate 31 0

example : KLen' demoK ∧ KInj demoK := by
  refine ⟨fun m => by simp [demoK], ?_⟩
  intro a b h
  simp only [demoK, List.cons.injEq, and_true] at h
  exact encList_inj a b h

/-- what "the configured signer" is, read from the source (regenerated on every run): both flows build their certificate
    signer from the aggsender's own key configuration -/
theorem C10_code_facts : Aggkit.Gen.CertFacts.flowSignerConfigs = ["cfg.AggsenderPrivateKey", "cfg.AggsenderPrivateKey"] := by decide

end Aggkit.Certificate
