import AggkitModel.Proofs.Aggsender
import AggkitModel.Generated.CertFacts
/-
C02 — bridge exits settle exactly once through a gap-free certificate chain.
Property theorems only (the invariant and its induction over histories are in Proofs/Aggsender.lean).
Quantifiers: every configuration (retry-immediately or retry-at-epoch, any start block, any size limit, any size
function), every operation sequence of any length (L2 blocks, epoch ticks, status ticks, Agglayer moves, failing
Agglayer calls, crashes with and without a submission in flight, loss of the database, restarts).
-/
namespace Aggkit.Aggsender
open Aggkit.CertRange

/-- what C02 says about a state: only the most recent certificate can be undecided; every certificate the Agglayer
    ever received has the height of the last settled one before it plus one (0 at the start), starts from that
    certificate's new exit root and from the block after its last block; and it carries exactly the bridge exits and
    claims of its block range, in chain order -/
structure ChainOK (s : Sys) : Prop where
  onlyLastOpen : ∀ i (h : i < s.agg.length), i + 1 < s.agg.length → (s.agg[i]).status.isOpen = false
  position : ∀ i (h : i < s.agg.length),
    ((s.agg[i]).height, (s.agg[i]).prev, (s.agg[i]).from_) = expect s.cfg (s.agg.take i) ∧ (s.agg[i]).from_ ≤ (s.agg[i]).to_
  content : ∀ c ∈ s.agg, c.to_ ≤ lastProcessed s.l2 ∧ c.bridges = bridgesIn s.l2 c.from_ c.to_ ∧
    c.claims = claimsIn s.l2 c.from_ c.to_
  l2sorted : s.l2.Pairwise (fun a b => a.num < b.num)
  roots : ∀ c ∈ s.agg, c.prev = cnt s.l2 (c.from_ - 1) ∧ c.new = cnt s.l2 c.to_
  depositIds : ∀ t, (bridgesIn s.l2 0 t).map (·.id) = List.range (cnt s.l2 t)

/-- the full statement, parametrised by the admissible configurations -/
def C02_Statement (admissible : Cfg → Prop) : Prop :=
  ∀ (size : Params → Nat) (cfg : Cfg) (ops : List Op), admissible cfg → opsOK size { cfg := cfg } ops = true →
    ChainOK (run size { cfg := cfg } ops)

/-- **C02**, for every configuration — including Agglayers whose certificate headers carry no previous local exit root
    (`omitPrev`): a record rebuilt from such a header has none, and the node then falls back to the settled record one
    height below, which by `settled_unique` is the last settled certificate. -/
theorem C02_chain : C02_Statement (fun _ => True) := by
  intro size cfg ops _ hops
  have hi := run_inv size ops { cfg := cfg } (init_inv cfg) hops
  generalize run size { cfg := cfg } ops = s at hi
  exact ⟨hi.closedPrefix, hi.chain, fun c hc => ⟨(hi.content c hc).1, (hi.content c hc).2.1, (hi.content c hc).2.2.1⟩,
    hi.l2sorted, fun c hc => ⟨(hi.counts c hc).1, (hi.counts c hc).2⟩, prefix_ids s.l2 hi.l2sorted hi.deposits⟩

/-! ### what `expect` says, spelled out -/

theorem expect_start (cfg : Cfg) (pre : List ACert) (h : lastSettled pre = none) :
    expect cfg pre = (0, 0, cfg.start + 1) := by unfold expect; rw [h]

theorem expect_after (cfg : Cfg) (pre : List ACert) (p : ACert) (h : lastSettled pre = some p) :
    expect cfg pre = (p.height + 1, p.new, p.to_ + 1) := by unfold expect; rw [h]

theorem take_succ_getElem (l : List ACert) (i : Nat) (h : i < l.length) : l.take (i + 1) = l.take i ++ [l[i]] := by
  rw [List.take_add_one, List.getElem?_eq_getElem h]; rfl

/-- no certificate is submitted while an earlier one is undecided: whenever a later certificate exists, the earlier
    one is settled or in error -/
theorem C02_no_overlap (s : Sys) (h : ChainOK s) (i j : Nat) (hij : i < j) (hj : j < s.agg.length) :
    (s.agg[i]'(by omega)).status.isOpen = false :=
  h.onlyLastOpen i (by omega) (by omega)

/-- a replacement for a certificate in error reuses its height, its previous exit root and its first block -/
theorem C02_replacement (s : Sys) (h : ChainOK s) (i : Nat) (hi : i + 1 < s.agg.length)
    (herr : (s.agg[i]'(by omega)).status = .inError) :
    (s.agg[i+1]).height = (s.agg[i]'(by omega)).height ∧ (s.agg[i+1]).prev = (s.agg[i]'(by omega)).prev ∧
    (s.agg[i+1]).from_ = (s.agg[i]'(by omega)).from_ := by
  have h1 := (h.position (i+1) hi).1
  have h0 := (h.position i (by omega)).1
  rw [take_succ_getElem _ i (by omega), expect_snoc_not _ _ _ (by rw [herr]; simp), ← h0] at h1
  simp only [Prod.mk.injEq] at h1
  exact h1

/-- the certificate after a settled one has the next height, starts from its new exit root and from the block after
    its last block -/
theorem C02_after_settled (s : Sys) (h : ChainOK s) (i : Nat) (hi : i + 1 < s.agg.length)
    (hset : (s.agg[i]'(by omega)).status = .settled) :
    (s.agg[i+1]).height = (s.agg[i]'(by omega)).height + 1 ∧ (s.agg[i+1]).prev = (s.agg[i]'(by omega)).new ∧
    (s.agg[i+1]).from_ = (s.agg[i]'(by omega)).to_ + 1 := by
  have h1 := (h.position (i+1) hi).1
  rw [take_succ_getElem _ i (by omega), expect_snoc_settled _ _ _ hset] at h1
  simp only [Prod.mk.injEq] at h1
  exact h1

/-! ### the settled chain covers every event exactly once, in chain order -/

/-- the settled certificates among the first `n` submissions, in submission (= height) order, carry exactly the
    events of the blocks from the start block up to where the next certificate must begin -/
theorem settled_prefix_exact (sel : L2Blk → List Ev) (selC : ACert → List Ev) (s : Sys) (h : ChainOK s)
    (hsel : ∀ c ∈ s.agg, selC c = evsIn sel s.l2 c.from_ c.to_) :
    ∀ n, n ≤ s.agg.length →
      s.cfg.start + 1 ≤ (expect s.cfg (s.agg.take n)).2.2 ∧
      ((s.agg.take n).filter (·.status = .settled)).flatMap selC =
        evsIn sel s.l2 (s.cfg.start + 1) ((expect s.cfg (s.agg.take n)).2.2 - 1) := by
  intro n
  induction n with
  | zero =>
    intro _
    simp only [List.take_zero, List.filter_nil, List.flatMap_nil]
    rw [expect_start _ _ (by simp [lastSettled])]
    exact ⟨Nat.le_refl _, (evsIn_empty_range _ _ _ _ (by simp)).symm⟩
  | succ n ih =>
    intro hn
    have hlt : n < s.agg.length := by omega
    obtain ⟨ih1, ih2⟩ := ih (by omega)
    rw [take_succ_getElem _ n hlt, List.filter_append]
    have hpos := h.position n hlt
    by_cases hset : (s.agg[n]).status = .settled
    · rw [expect_snoc_settled _ _ _ hset]
      have hf : (s.agg[n]).from_ = (expect s.cfg (s.agg.take n)).2.2 := by rw [← hpos.1]
      simp only [List.filter_cons, hset, decide_true, if_true, List.filter_nil, List.flatMap_append,
        List.flatMap_cons, List.flatMap_nil, List.append_nil]
      rw [ih2, hsel _ (List.getElem_mem hlt), hf]
      refine ⟨by omega, ?_⟩
      have hsp := evsIn_split sel s.l2 h.l2sorted (s.cfg.start + 1) ((expect s.cfg (s.agg.take n)).2.2 - 1)
        (s.agg[n]).to_ (by omega) (by omega)
      have e : (expect s.cfg (s.agg.take n)).2.2 - 1 + 1 = (expect s.cfg (s.agg.take n)).2.2 := by omega
      rw [e] at hsp
      rw [hsp]; simp
    · rw [expect_snoc_not _ _ _ hset]
      simp only [List.filter_cons, hset, decide_false, Bool.false_eq_true, if_false, List.filter_nil, List.append_nil]
      exact ⟨ih1, ih2⟩

/-- **exactly once, in chain order**: the bridge exits (and, separately, the claims) of all settled certificates,
    read in height order, are exactly the bridge events (claims) of the blocks from the first block up to the last
    block of the last settled certificate -/
theorem C02_exactly_once (s : Sys) (h : ChainOK s) :
    (s.agg.filter (·.status = .settled)).flatMap (·.bridges) =
      bridgesIn s.l2 (s.cfg.start + 1) ((expect s.cfg s.agg).2.2 - 1) ∧
    (s.agg.filter (·.status = .settled)).flatMap (·.claims) =
      claimsIn s.l2 (s.cfg.start + 1) ((expect s.cfg s.agg).2.2 - 1) := by
  have hb := (settled_prefix_exact (·.bridges) (·.bridges) s h (fun c hc => (h.content c hc).2.1) s.agg.length (Nat.le_refl _)).2
  have hc := (settled_prefix_exact (·.claims) (·.claims) s h (fun c hc => (h.content c hc).2.2) s.agg.length (Nat.le_refl _)).2
  rw [List.take_length] at hb hc
  exact ⟨hb, hc⟩


/-- the settled certificates have heights 0, 1, 2, … in submission order (one per height, no gap) -/
theorem settled_heights (s : Sys) (h : ChainOK s) : ∀ n, n ≤ s.agg.length →
    (expect s.cfg (s.agg.take n)).1 = ((s.agg.take n).filter (·.status = .settled)).length ∧
    ((s.agg.take n).filter (·.status = .settled)).map (·.height) =
      List.range ((s.agg.take n).filter (·.status = .settled)).length := by
  intro n
  induction n with
  | zero =>
    intro _
    simp only [List.take_zero, List.filter_nil, List.length_nil, List.map_nil, List.range_zero, and_true]
    rw [expect_start _ _ (by simp [lastSettled])]
  | succ n ih =>
    intro hn
    have hlt : n < s.agg.length := by omega
    obtain ⟨ih1, ih2⟩ := ih (by omega)
    rw [take_succ_getElem _ n hlt, List.filter_append]
    have hpos := (h.position n hlt).1
    by_cases hset : (s.agg[n]).status = .settled
    · rw [expect_snoc_settled _ _ _ hset]
      have hh : (s.agg[n]).height = (expect s.cfg (s.agg.take n)).1 := by rw [← hpos]
      simp only [List.filter_cons, hset, decide_true, if_true, List.filter_nil, List.length_append,
        List.length_cons, List.length_nil, List.map_append, List.map_cons, List.map_nil]
      rw [ih2, hh, ih1, List.range_succ]
      exact ⟨rfl, rfl⟩
    · rw [expect_snoc_not _ _ _ hset]
      simp only [List.filter_cons, hset, decide_false, Bool.false_eq_true, if_false, List.filter_nil, List.append_nil]
      exact ⟨ih1, ih2⟩

theorem C02_settled_heights (s : Sys) (h : ChainOK s) :
    (s.agg.filter (·.status = .settled)).map (·.height) = List.range (s.agg.filter (·.status = .settled)).length := by
  have := (settled_heights s h s.agg.length (Nat.le_refl _)).2
  rwa [List.take_length] at this

/-! ### non-vacuity: a concrete history with an in-error certificate, its replacement, a crash between submission and
    record, a restart, and two settled certificates -/

def demoOps : List Op :=
  [ .restart,
    .l2blk ⟨1, [⟨1, 0, 0⟩, ⟨1, 3, 1⟩], [⟨1, 0, 0⟩]⟩,
    .epoch false, .move 1 .inError, .l2blk ⟨2, [⟨2, 0, 2⟩], []⟩, .epoch true, .restart,
    .move 2 .settled, .status false, .l2blk ⟨4, [], [⟨4, 5, 1⟩]⟩, .epoch false, .move 3 .settled, .status false ]

example : opsOK sizeExact {} demoOps = true := by decide
example : ((run sizeExact {} demoOps).agg.map (fun c => [c.id, c.height, c.from_, c.to_, c.prev, c.new])) =
    [[1, 0, 1, 1, 0, 2], [2, 0, 1, 2, 0, 3], [3, 1, 3, 4, 3, 3]] ∧
    (run sizeExact {} demoOps).agg.map (·.status) = [St.inError, St.settled, St.settled] := by decide


/-! ### the code points this model rests on (regenerated from /repo on every run by tools/goextract) -/

/-- the send loop polls the pending certificates before it may send, in both arms; `sendCertificate` builds, then submits,
    then records; what it records comes from the submitted certificate and its build parameters; the open statuses are
    Pending, Proven, Candidate -/
theorem C02_code_facts :
    Gen.CertFacts.statusOrder = ["Pending", "Proven", "Candidate", "InError", "Settled"] ∧
    (Gen.CertFacts.nonSettledStatuses.length = 3 ∧ "Pending" ∈ Gen.CertFacts.nonSettledStatuses ∧
      "Proven" ∈ Gen.CertFacts.nonSettledStatuses ∧ "Candidate" ∈ Gen.CertFacts.nonSettledStatuses) ∧
    Gen.CertFacts.closedStatuses.length = 2 ∧
    Gen.CertFacts.loopSteps = ["CheckPendingCertificatesStatus", "sendCertificate", "CheckPendingCertificatesStatus", "sendCertificate"] ∧
    Gen.CertFacts.sendSteps = ["GetCertificateBuildParams", "BuildCertificate", "SendCertificate", "saveNonAcceptedCert",
      "saveCertificateToStorage"] ∧
    (∀ f ∈ ["Height=certificate.Height", "CertificateID=certificateHash", "NewLocalExitRoot=certificate.NewLocalExitRoot",
        "PreviousLocalExitRoot=&prevLER", "FromBlock=certificateParams.FromBlock", "ToBlock=certificateParams.ToBlock",
        "RetryCount=certificateParams.RetryCount"], f ∈ Gen.CertFacts.storedHeaderFields) := by decide

end Aggkit.Aggsender
