import AggkitModel.Model.ClaimTrace
/-
C20 — claim details are taken only from the matching, non-reverted bridge call; when the transaction
contains no such call nothing is recorded and an error is raised. All call trees: any depth, any fan-out,
reverted frames anywhere.
-/
namespace Aggkit.ClaimTrace

theorem live_def (f : Frame) : live f = if f.err then [] else f :: liveL f.calls := by
  cases f with | mk e b s p cs => cases e <;> simp [live, Frame.err, Frame.calls]

theorem liveL_cons (f : Frame) (fs : List Frame) : liveL (f :: fs) = live f ++ liveL fs := by simp [liveL]

theorem size_def (f : Frame) : size f = 1 + sizeL f.calls := by
  cases f with | mk e b s p cs => simp [size, Frame.calls]

theorem mem_liveL_append (x : Frame) (a b : List Frame) : x ∈ liveL (a ++ b) ↔ x ∈ liveL a ∨ x ∈ liveL b := by
  induction a with
  | nil => simp [liveL]
  | cons f fs ih => simp only [List.cons_append, liveL_cons, List.mem_append, ih]; exact or_assoc.symm

theorem sizeL_append (a b : List Frame) : sizeL (a ++ b) = sizeL a + sizeL b := by
  induction a with
  | nil => simp [sizeL]
  | cons f fs ih => simp only [List.cons_append, sizeL, ih]; omega

theorem mem_liveL_reverse (x : Frame) (l : List Frame) : x ∈ liveL l.reverse ↔ x ∈ liveL l := by
  induction l with
  | nil => simp
  | cons f fs ih =>
    rw [List.reverse_cons, mem_liveL_append, ih]
    have e1 : liveL [f] = live f := by simp [liveL]
    rw [e1, liveL_cons, List.mem_append]
    exact or_comm

theorem sizeL_reverse (l : List Frame) : sizeL l.reverse = sizeL l := by
  induction l with
  | nil => rfl
  | cons f fs ih => rw [List.reverse_cons, sizeL_append, ih]; simp [sizeL]; omega

theorem mem_liveL_filter (x : Frame) (l : List Frame) : x ∈ liveL (l.filter (fun c => !c.err)) ↔ x ∈ liveL l := by
  induction l with
  | nil => simp
  | cons f fs ih =>
    by_cases he : f.err = true
    · simp only [List.filter_cons, he, Bool.not_true, Bool.false_eq_true, if_false, ih, liveL_cons, live_def,
        if_true, List.nil_append]
    · have he' : f.err = false := by simpa using he
      simp only [List.filter_cons, he', Bool.not_false, if_true, liveL_cons, List.mem_append, ih]

theorem sizeL_filter_le (l : List Frame) : sizeL (l.filter (fun c => !c.err)) ≤ sizeL l := by
  induction l with
  | nil => simp
  | cons f fs ih =>
    simp only [List.filter_cons]
    split
    · simp only [sizeL]; omega
    · simp only [sizeL]; omega

/-- the frames pushed after popping a live `f` are exactly its live descendants plus the rest -/
theorem mem_next (x f : Frame) (rest : List Frame) :
    x ∈ liveL ((f.calls.filter (fun c => !c.err)).reverse ++ rest) ↔ x ∈ liveL f.calls ∨ x ∈ liveL rest := by
  rw [mem_liveL_append, mem_liveL_reverse, mem_liveL_filter]

theorem size_next (f : Frame) (rest : List Frame) :
    sizeL ((f.calls.filter (fun c => !c.err)).reverse ++ rest) + 1 ≤ sizeL (f :: rest) := by
  rw [sizeL_append, sizeL_reverse]
  have := sizeL_filter_le f.calls
  simp only [sizeL, size_def]; omega

/-- **soundness** of the search, any fuel, any stack -/
theorem dfs_sound (gi : Nat) : ∀ (fuel : Nat) (st : List Frame) (id s : Nat) (m : Bool),
    dfs gi fuel st = .ok id s m →
    ∃ f ∈ liveL st, f.toBridge = true ∧ f.payload = .claim gi id m ∧ f.sender = s := by
  intro fuel
  induction fuel with
  | zero => intro st id s m h; simp [dfs] at h
  | succ fuel ih =>
    intro st id s m h
    cases st with
    | nil => simp [dfs] at h
    | cons f rest =>
      unfold dfs at h
      by_cases he : f.err = true
      · rw [if_pos he] at h
        obtain ⟨g, hg, r⟩ := ih rest id s m h
        exact ⟨g, by rw [liveL_cons, List.mem_append]; exact Or.inr hg, r⟩
      · rw [if_neg he] at h
        have he' : f.err = false := by simpa using he
        have hcont : dfs gi fuel ((f.calls.filter (fun c => !c.err)).reverse ++ rest) = .ok id s m →
            ∃ g ∈ liveL (f :: rest), g.toBridge = true ∧ g.payload = .claim gi id m ∧ g.sender = s := by
          intro hc
          obtain ⟨g, hg, r⟩ := ih _ id s m hc
          refine ⟨g, ?_, r⟩
          rw [liveL_cons, List.mem_append, live_def, he']
          simp only [Bool.false_eq_true, if_false, List.mem_cons]
          rcases (mem_next g f rest).mp hg with h1 | h1
          · exact Or.inl (Or.inr h1)
          · exact Or.inr h1
        simp only at h
        by_cases hb : f.toBridge = true
        · rw [if_pos hb] at h
          cases hp : f.payload with
          | claim g cid cm =>
            simp only [tryDecode, hp] at h
            by_cases hg : g = gi
            · rw [if_pos hg] at h
              simp only [Res.ok.injEq] at h
              obtain ⟨h1, h2, h3⟩ := h
              subst hg h1 h3
              refine ⟨f, ?_, hb, hp, h2⟩
              rw [liveL_cons, List.mem_append, live_def, he']; simp
            · rw [if_neg hg] at h; exact hcont h
          | unknown => simp [tryDecode, hp] at h
          | short => simp [tryDecode, hp] at h
        · rw [if_neg hb] at h; exact hcont h

/-- the property's own restriction: every (live) call addressed to the bridge is a claim call -/
def OnlyClaimCalls (st : List Frame) : Prop :=
  ∀ f ∈ liveL st, f.toBridge = true → ∃ g id m, f.payload = .claim g id m

/-- outcome of the search on any stack, with enough fuel -/
theorem dfs_complete (gi : Nat) : ∀ (fuel : Nat) (st : List Frame), sizeL st ≤ fuel → OnlyClaimCalls st →
    ((∃ f ∈ liveL st, f.toBridge = true ∧ ∃ id m, f.payload = .claim gi id m) → ∃ id s m, dfs gi fuel st = .ok id s m) ∧
    ((¬ ∃ f ∈ liveL st, f.toBridge = true ∧ ∃ id m, f.payload = .claim gi id m) → dfs gi fuel st = .notFound) := by
  intro fuel
  induction fuel with
  | zero =>
    intro st hs _
    cases st with
    | nil => exact ⟨fun ⟨f, hf, _⟩ => by simp [liveL] at hf, fun _ => by simp [dfs]⟩
    | cons f rest => simp only [sizeL, size_def] at hs; omega
  | succ fuel ih =>
    intro st hs hoc
    cases st with
    | nil => exact ⟨fun ⟨f, hf, _⟩ => by simp [liveL] at hf, fun _ => by simp [dfs]⟩
    | cons f rest =>
      unfold dfs
      by_cases he : f.err = true
      · rw [if_pos he]
        have hl : liveL (f :: rest) = liveL rest := by rw [liveL_cons, live_def, if_pos he]; rfl
        have := ih rest (by simp only [sizeL, size_def] at hs; omega) (by intro g hg; exact hoc g (by rw [hl]; exact hg))
        rw [hl]; exact this
      · rw [if_neg he]
        have he' : f.err = false := by simpa using he
        have hmem : ∀ x, x ∈ liveL (f :: rest) ↔ x = f ∨ x ∈ liveL f.calls ∨ x ∈ liveL rest := by
          intro x
          rw [liveL_cons, List.mem_append, live_def, he']
          simp only [Bool.false_eq_true, if_false, List.mem_cons]
          exact or_assoc
        have hnext := ih ((f.calls.filter (fun c => !c.err)).reverse ++ rest)
          (by have := size_next f rest; omega)
          (by intro g hg; exact hoc g ((hmem g).mpr (Or.inr ((mem_next g f rest).mp hg))))
        -- "a matching live frame other than f exists" transfers to the next stack
        have htrans : (∃ g ∈ liveL ((f.calls.filter (fun c => !c.err)).reverse ++ rest),
              g.toBridge = true ∧ ∃ id m, g.payload = .claim gi id m) ↔
            (∃ g, (g ∈ liveL f.calls ∨ g ∈ liveL rest) ∧ g.toBridge = true ∧ ∃ id m, g.payload = .claim gi id m) := by
          constructor
          · intro ⟨g, hg, r⟩; exact ⟨g, (mem_next g f rest).mp hg, r⟩
          · intro ⟨g, hg, r⟩; exact ⟨g, (mem_next g f rest).mpr hg, r⟩
        simp only
        by_cases hb : f.toBridge = true
        · rw [if_pos hb]
          obtain ⟨g, cid, cm, hp⟩ := hoc f ((hmem f).mpr (Or.inl rfl)) hb
          simp only [tryDecode, hp]
          by_cases hg : g = gi
          · rw [if_pos hg]
            refine ⟨fun _ => ⟨cid, f.sender, cm, rfl⟩, fun hno => ?_⟩
            exfalso; apply hno
            exact ⟨f, (hmem f).mpr (Or.inl rfl), hb, cid, cm, by rw [hp, hg]⟩
          · rw [if_neg hg]
            constructor
            · intro ⟨w, hw, wb, wid, wm, wp⟩
              apply hnext.1; rw [htrans]
              rcases (hmem w).mp hw with e | e
              · subst e; rw [hp] at wp; simp at wp; exact absurd wp.1 hg
              · exact ⟨w, e, wb, wid, wm, wp⟩
            · intro hno
              apply hnext.2
              rw [htrans]
              intro ⟨w, hw, r⟩
              exact hno ⟨w, (hmem w).mpr (Or.inr hw), r⟩
        · rw [if_neg hb]
          constructor
          · intro ⟨w, hw, wb, wid, wm, wp⟩
            apply hnext.1; rw [htrans]
            rcases (hmem w).mp hw with e | e
            · subst e; exact absurd wb hb
            · exact ⟨w, e, wb, wid, wm, wp⟩
          · intro hno
            apply hnext.2
            rw [htrans]
            intro ⟨w, hw, r⟩
            exact hno ⟨w, (hmem w).mpr (Or.inr hw), r⟩

/-- **C20 soundness**: whatever is recorded for the claim comes from a call to the bridge with the
    event's global index that is live (not reverted, nor inside a reverted call) — for every call tree.
    No hypothesis on the other calls. -/
theorem C20_sound (gi : Nat) (root : Frame) (id s : Nat) (m : Bool)
    (h : setClaimCalldata gi root = .ok id s m) :
    ∃ f ∈ live root, f.toBridge = true ∧ f.payload = .claim gi id m ∧ f.sender = s := by
  unfold setClaimCalldata at h
  split at h
  · simp at h
  · obtain ⟨f, hf, r⟩ := dfs_sound gi _ _ id s m h
    simp only [liveL, List.append_nil] at hf
    exact ⟨f, hf, r⟩

/-- **C20 completeness**: if such a call exists (and every live call to the bridge is a claim call) the
    details of one of them are recorded -/
theorem C20_complete (gi : Nat) (root : Frame) (hoc : OnlyClaimCalls [root])
    (h : ∃ f ∈ live root, f.toBridge = true ∧ ∃ id m, f.payload = .claim gi id m) :
    ∃ id s m, setClaimCalldata gi root = .ok id s m := by
  obtain ⟨f, hf, r⟩ := h
  have hne : root.err = false := by
    cases hr : root.err
    · rfl
    · rw [live_def, hr] at hf; simp at hf
  unfold setClaimCalldata
  rw [hne]
  simp only [Bool.false_eq_true, if_false]
  apply (dfs_complete gi (size root + 1) [root] (by simp [sizeL]) hoc).1
  exact ⟨f, by simpa [liveL] using hf, r⟩

/-- **C20 none**: when the transaction contains no such call, nothing is recorded and an error is raised -/
theorem C20_none (gi : Nat) (root : Frame) (hoc : OnlyClaimCalls [root])
    (h : ¬ ∃ f ∈ live root, f.toBridge = true ∧ ∃ id m, f.payload = .claim gi id m) :
    setClaimCalldata gi root = .notFound ∨ setClaimCalldata gi root = .rootReverted := by
  unfold setClaimCalldata
  by_cases hr : root.err = true
  · right; rw [if_pos hr]
  · left
    rw [if_neg hr]
    apply (dfs_complete gi (size root + 1) [root] (by simp [sizeL]) hoc).2
    intro ⟨f, hf, r⟩
    exact h ⟨f, by simpa [liveL] using hf, r⟩

/-- non-vacuity: a tree with a reverted wrapper around a matching call, and a live matching call -/
example : setClaimCalldata 5
    (.mk false false 1 .unknown
      [ .mk true false 2 .unknown [ .mk false true 3 (.claim 5 11 false) [] ],
        .mk false false 4 .unknown [ .mk false true 6 (.claim 7 12 true) [], .mk false true 8 (.claim 5 13 true) [] ] ])
    = .ok 13 8 true := by decide

end Aggkit.ClaimTrace
