import AggkitModel.Model.BridgeStore
import AggkitModel.Properties.C01
import AggkitModel.Generated.SyncFacts
import AggkitModel.Model.L1InfoStore
import AggkitModel.Model.LastGER
set_option linter.unusedSectionVars false
/-
C07 — block processing is all-or-nothing under faults; retry is clean; no later block is recorded
while an earlier one is missing.
Bridge store model (Model/BridgeStore.lean): the fault is the index of the write statement that fails,
quantified over ALL indices and ALL blocks. The in-memory half (frontier cache after a rollback, fault
inside AddLeaf included) is the tree-level history theorem `runHistory_inv` (Proofs/TreeHistory.lean).
-/
namespace Aggkit.C07
open Aggkit Aggkit.BridgeStore

variable {α : Type} [DecidableEq α]

theorem step_add_snap (H : HashAlg α) (n : Nat) (tm : TM α) (d : TreeDb α) (bn pos dc : Nat) (leaf : α)
    (h : tm.snap = some d) : (TM.step H n tm (.add bn pos dc leaf)).1.snap = some d := by
  unfold TM.step; rw [h]; simp only [TM.doAdd]
  split <;> exact h

theorem insertRow_tm (fault : Option Nat) (w w' : Work α) (r : Row) (h : insertRow fault w r = .ok w') :
    w'.tm = w.tm := by
  unfold insertRow at h
  split at h
  · simp at h
  · split at h
    · simp at h
    · simp at h; rw [← h]

theorem rowResult_snap (fault : Option Nat) (w : Work α) (r : Row) (d : TreeDb α) (h : w.tm.snap = some d) :
    (rowResult w (insertRow fault w r)).1.tm.snap = some d := by
  cases hi : insertRow fault w r with
  | ok w' => simp only [rowResult]; rw [insertRow_tm _ _ _ _ hi]; exact h
  | error e => simp only [rowResult]; exact h

theorem rowResult_incons (fault : Option Nat) (w : Work α) (r : Row) :
    (rowResult w (insertRow fault w r)).2.2 ≠ some .inconsistent := by
  unfold insertRow
  split
  · simp [rowResult]
  · split <;> simp [rowResult]

theorem addFaulted_snap (H : HashAlg α) (n bn : Nat) (w : Work α) (pos dc : Nat) (leaf : α) (d : TreeDb α)
    (h : w.tm.snap = some d) : (addFaulted H n bn w pos dc leaf).1.tm.snap = some d := by
  unfold addFaulted
  split <;> exact h

theorem addFaulted_incons (H : HashAlg α) (n bn : Nat) (w : Work α) (pos dc : Nat) (leaf : α)
    (h : (addFaulted H n bn w pos dc leaf).2.2 = some .inconsistent) : (addFaulted H n bn w pos dc leaf).2.1 = true := by
  unfold addFaulted at h ⊢
  split <;> simp_all

theorem procEvent_snap (H : HashAlg α) (n : Nat) (fault : Option Nat) (bn : Nat) (w : Work α) (d : TreeDb α)
    (e : Ev α) (h : w.tm.snap = some d) : (procEvent H n fault bn w e).1.tm.snap = some d := by
  cases e with
  | bridge pos dc leaf fk payload =>
    simp only [procEvent]
    split
    · exact addFaulted_snap H n bn w pos dc leaf d h
    · have hs := step_add_snap H n w.tm d bn pos dc leaf h
      cases hst : TM.step H n w.tm (.add bn pos dc leaf) with
      | mk tm' o =>
        rw [hst] at hs
        cases o with
        | ok => simp only; exact rowResult_snap fault { w with tm := tm', stmts := w.stmts + 1 + n } _ d hs
        | root r => simp only; exact hs
        | badOp => simp only; exact hs
        | err e => cases e <;> (simp only; exact hs)
  | claim pos fk payload => simp only [procEvent]; exact rowResult_snap fault w _ d h
  | tokenMapping pos payload => simp only [procEvent]; exact rowResult_snap fault w _ d h
  | legacy pos addr payload => simp only [procEvent]; exact rowResult_snap fault w _ d h
  | rmLegacy pos addr =>
    simp only [procEvent]; split <;> exact h

theorem procEvent_incons (H : HashAlg α) (n : Nat) (fault : Option Nat) (bn : Nat) (w : Work α) (e : Ev α)
    (h : (procEvent H n fault bn w e).2.2 = some .inconsistent) : (procEvent H n fault bn w e).2.1 = true := by
  cases e with
  | bridge pos dc leaf fk payload =>
    simp only [procEvent] at h ⊢
    split
    · rename_i hin; rw [if_pos hin] at h; exact addFaulted_incons H n bn w pos dc leaf h
    · rename_i hin
      rw [if_neg hin] at h
      cases hst : TM.step H n w.tm (.add bn pos dc leaf) with
      | mk tm' o =>
        rw [hst] at h
        cases o with
        | ok => simp only at h; exact absurd h (rowResult_incons fault _ _)
        | root r => simp at h
        | badOp => simp at h
        | err e => cases e <;> simp at h ⊢
  | claim pos fk payload => simp only [procEvent] at h; exact absurd h (rowResult_incons fault _ _)
  | tokenMapping pos payload => simp only [procEvent] at h; exact absurd h (rowResult_incons fault _ _)
  | legacy pos addr payload => simp only [procEvent] at h; exact absurd h (rowResult_incons fault _ _)
  | rmLegacy pos addr => simp only [procEvent] at h; split at h <;> simp at h

theorem procEvents_snap (H : HashAlg α) (n : Nat) (fault : Option Nat) (bn : Nat) (d : TreeDb α) :
    ∀ (es : List (Ev α)) (w : Work α), w.tm.snap = some d → (procEvents H n fault bn w es).1.tm.snap = some d := by
  intro es
  induction es with
  | nil => intro w h; exact h
  | cons e es ih =>
    intro w h
    unfold procEvents
    have := procEvent_snap H n fault bn w d e h
    split
    · rename_i w' _ heq; rw [heq] at this; exact ih w' this
    · rename_i r hne; exact this

theorem pb_halted (H : HashAlg α) (n : Nat) (s : BP α) (b : Block α) (fault : Option Nat) (hh : s.halted = true) :
    processBlock H n s b fault = (s, .inconsistent) := by
  unfold processBlock; rw [if_pos hh]
theorem pb_fault0 (H : HashAlg α) (n : Nat) (s : BP α) (b : Block α) (fault : Option Nat) (hh : s.halted = false)
    (hf : hit fault 0 = true) : processBlock H n s b fault = (rolledBack H n s, .fault) := by
  unfold processBlock; rw [if_neg (by rw [hh]; decide), if_pos hf]
theorem pb_dup (H : HashAlg α) (n : Nat) (s : BP α) (b : Block α) (fault : Option Nat) (hh : s.halted = false)
    (hf : hit fault 0 = false) (hc : s.blocks.contains b.num = true) :
    processBlock H n s b fault = (rolledBack H n s, .constraint) := by
  unfold processBlock; rw [if_neg (by rw [hh]; decide), if_neg (by rw [hf]; decide), if_pos hc]
theorem pb_main (H : HashAlg α) (n : Nat) (s : BP α) (b : Block α) (fault : Option Nat) (hh : s.halted = false)
    (hf : hit fault 0 = false) (hc : s.blocks.contains b.num = false) :
    processBlock H n s b fault = finishBlock H n s b
      (procEvents H n fault b.num { tm := (TM.step H n s.tm .begin).1, rows := s.rows, stmts := 1 } b.events) := by
  unfold processBlock; rw [if_neg (by rw [hh]; decide), if_neg (by rw [hf]; decide), if_neg (by rw [hc]; decide)]

/-- **all-or-nothing**: whatever the block, whichever write statement fails (any index), and for every
    other failure (duplicate key, deposit-count gap, refusal while halted): if `ProcessBlock` does not
    return success, every table — blocks, event rows, exit-tree roots and nodes — is exactly as before. -/
theorem C07_atomic (H : HashAlg α) (n : Nat) (s : BP α) (b : Block α) (fault : Option Nat)
    (hnotx : s.tm.snap = none) (hfail : (processBlock H n s b fault).2 ≠ .ok) :
    (processBlock H n s b fault).1.tm.db = s.tm.db ∧ (processBlock H n s b fault).1.rows = s.rows ∧
    (processBlock H n s b fault).1.blocks = s.blocks ∧ (processBlock H n s b fault).1.tm.snap = none := by
  have hbegin : (TM.step H n s.tm .begin).1 = { s.tm with snap := some s.tm.db, cbs := 0 } :=
    step_begin H n s.tm hnotx
  have hroll : ∀ tm : TM α, tm.snap = some s.tm.db →
      (TM.step H n tm .rollback).1.db = s.tm.db ∧ (TM.step H n tm .rollback).1.snap = none := by
    intro tm h; rw [step_rollback H n tm s.tm.db h]; exact ⟨rfl, rfl⟩
  have h0 := hroll (TM.step H n s.tm .begin).1 (by rw [hbegin])
  cases hh : s.halted with
  | true => rw [pb_halted H n s b fault hh]; exact ⟨rfl, rfl, rfl, hnotx⟩
  | false =>
    cases hf : hit fault 0 with
    | true => rw [pb_fault0 H n s b fault hh hf]; exact ⟨h0.1, rfl, rfl, h0.2⟩
    | false =>
      cases hc : s.blocks.contains b.num with
      | true => rw [pb_dup H n s b fault hh hf hc]; exact ⟨h0.1, rfl, rfl, h0.2⟩
      | false =>
        rw [pb_main H n s b fault hh hf hc] at hfail ⊢
        have hs := procEvents_snap H n fault b.num s.tm.db b.events
          { tm := (TM.step H n s.tm .begin).1, rows := s.rows, stmts := 1 } (by simp only; rw [hbegin])
        cases hpe : procEvents H n fault b.num { tm := (TM.step H n s.tm .begin).1, rows := s.rows, stmts := 1 } b.events with
        | mk w rest =>
          obtain ⟨halt, r⟩ := rest
          rw [hpe] at hs hfail
          cases r with
          | some e => have := hroll w.tm hs; exact ⟨this.1, rfl, rfl, this.2⟩
          | none => simp [finishBlock] at hfail

/-- an inconsistency error always leaves the processor halted — so (with `C14_refuses_while_halted`) the
    driver, which does not retry after that error, cannot record any later block either: no later block is
    recorded while an earlier one is missing. Every other error makes the driver retry the same block. -/
theorem C07_inconsistent_means_halted (H : HashAlg α) (n : Nat) (s : BP α) (b : Block α) (fault : Option Nat)
    (h : (processBlock H n s b fault).2 = .inconsistent) : (processBlock H n s b fault).1.halted = true := by
  have key : ∀ (es : List (Ev α)) (w : Work α),
      (procEvents H n fault b.num w es).2.2 = some .inconsistent → (procEvents H n fault b.num w es).2.1 = true := by
    intro es
    induction es with
    | nil => intro w hw; simp [procEvents] at hw
    | cons e es ih =>
      intro w hw
      unfold procEvents at hw ⊢
      cases hpe : procEvent H n fault b.num w e with
      | mk w' rest =>
        obtain ⟨hl, r⟩ := rest
        rw [hpe] at hw
        cases r with
        | none => exact ih w' hw
        | some e' =>
          have := procEvent_incons H n fault b.num w e (by rw [hpe]; exact hw)
          rw [hpe] at this; exact this
  cases hh : s.halted with
  | true => rw [pb_halted H n s b fault hh]; exact hh
  | false =>
    cases hf : hit fault 0 with
    | true => rw [pb_fault0 H n s b fault hh hf] at h; simp at h
    | false =>
      cases hc : s.blocks.contains b.num with
      | true => rw [pb_dup H n s b fault hh hf hc] at h; simp at h
      | false =>
        rw [pb_main H n s b fault hh hf hc] at h ⊢
        have hk := key b.events { tm := (TM.step H n s.tm .begin).1, rows := s.rows, stmts := 1 }
        cases hpe : procEvents H n fault b.num { tm := (TM.step H n s.tm .begin).1, rows := s.rows, stmts := 1 } b.events with
        | mk w rest =>
          obtain ⟨halt, r⟩ := rest
          rw [hpe] at h hk
          cases r with
          | some e =>
            simp only [finishBlock] at h ⊢
            subst h
            exact hk rfl
          | none => simp [finishBlock] at h

/-- **retry is clean** (tree half): a block attempt that is rolled back after ANY number of its leaves
    (fault between or inside AddLeaf calls), followed by anything, serves exactly the roots of a run in
    which the failed attempt never happened. -/
theorem C07_retry_clean_roots (H : HashAlg α) (hinj : H.Inj) (n : Nat) (ops1 ops2 : List (HiOp α))
    (bn : Nat) (leaves : List (Nat × α)) (k : Nat) (mid : Bool)
    (wfa : WFhistory H n [] (ops1 ++ [.block bn leaves (.rollbackAfter k mid)] ++ ops2))
    (wfb : WFhistory H n [] (ops1 ++ ops2)) :
    ∀ i, i < ((absHistory [] (ops1 ++ ops2)).map (·.2)).length →
      (getRootByIndex (runHistory H n (TM.init H n) (ops1 ++ [.block bn leaves (.rollbackAfter k mid)] ++ ops2)).db i).map (·.hash) =
      (getRootByIndex (runHistory H n (TM.init H n) (ops1 ++ ops2)).db i).map (·.hash) := by
  have habs : absHistory ([] : List (Nat × α)) (ops1 ++ [.block bn leaves (.rollbackAfter k mid)] ++ ops2) =
      absHistory [] (ops1 ++ ops2) := by
    simp [absHistory, List.foldl_append, HiOp.abs]
  intro i hi
  exact C01_partition_irrelevant H hinj n _ _ wfa wfb (by rw [habs]) i (by rw [habs]; exact hi)

/-- **what the fault model takes from the source** (regenerated from /repo on every run). The model says: a failing
    storage statement makes `ProcessBlock` return the error, and the deferred function then rolls the transaction back
    unless the commit has succeeded. In the source of the three stores and of the tree package this is: no `err != nil`
    block inside the write path handles the error locally — the listed exceptions are the rollback's own error, row-set
    `Close` warnings of read-only pagers, and the proof reader `getSiblings` (which converts a missing node into its own
    error value) —, and the rollback flag is set before the first statement and cleared only after `Commit`. -/
theorem C07_code_facts :
    Gen.SyncFacts.errHandledLocally_bridgeProcessor =
      ["GetBridgesPaged:rows.Close", "GetClaimsPaged:rows.Close", "GetLegacyTokenMigrations:rows.Close", "fetchTokenMappings:rows.Close",
       "rollbackTransaction:tx.Rollback"] ∧
    Gen.SyncFacts.errHandledLocally_l1infoProcessor = ["GetLatestInfoUntilBlock:tx.Rollback", "ProcessBlock:tx.Rollback", "Reorg:tx.Rollback"] ∧
    Gen.SyncFacts.errHandledLocally_l1infoVerifyBatches = [] ∧
    Gen.SyncFacts.errHandledLocally_l1infoInitial = [] ∧
    Gen.SyncFacts.errHandledLocally_gerProcessor = ["ProcessBlock:tx.Rollback"] ∧
    Gen.SyncFacts.errHandledLocally_treeCore = ["getSiblings:t.getRHTNode"] ∧
    Gen.SyncFacts.errHandledLocally_treeAppendOnly = [] ∧
    Gen.SyncFacts.errHandledLocally_treeUpdatable = ["UpsertLeaf:t.getLastRootWithTx"] ∧
    -- `Commit` / `Rollback` of the transaction wrapper report every failure; a store halts ONLY on a real mismatch (a
    -- deposit-count gap / an announced root or leaf count that differs) — never on a transient read or write error
    Gen.SyncFacts.errToNil_dbTx = [] ∧
    -- no failure is assigned to one variable while another one is tested (`if commitErr := tx.Commit(); err != nil`)
    Gen.SyncFacts.errVarMismatch = [] ∧
    Gen.SyncFacts.txBody_Commit = "{ if err := s.SQLTxer.Commit(); err != nil { return err } for _, cb := range s.commitCallbacks { cb() } return nil }" ∧
    Gen.SyncFacts.txBody_Rollback = "{ if err := s.SQLTxer.Rollback(); err != nil { return err } for _, cb := range s.rollbackCallbacks { cb() } return nil }" ∧
    Gen.SyncFacts.haltConds_bridge = ["errors.Is(err, tree.ErrInvalidIndex)"] ∧
    Gen.SyncFacts.haltConds_l1info =
      ["root.Hash != event.UpdateL1InfoTreeV2.CurrentL1InfoRoot || root.Index+1 != event.UpdateL1InfoTreeV2.LeafCount"] ∧
    Gen.SyncFacts.rollbackGuard_bridge = "FLAG" ∧ Gen.SyncFacts.rollbackGuard_l1info = "FLAG" ∧
    Gen.SyncFacts.rollbackGuard_ger = "FLAG" ∧
    Gen.SyncFacts.rollbackFlagFlow_bridge = ["FLAG := true", "Commit", "FLAG = false"] ∧
    Gen.SyncFacts.rollbackFlagFlow_l1info = ["FLAG := true", "Commit", "FLAG = false"] ∧
    Gen.SyncFacts.rollbackFlagFlow_ger = ["FLAG := true", "Commit", "FLAG = false"] := by decide

end Aggkit.C07

namespace Aggkit.C07x
open Aggkit.L1InfoStore
variable {α : Type} [DecidableEq α]

/-- **L1 info store, all-or-nothing**: whatever makes `ProcessBlock` fail — a halted processor, a duplicate block, an
    announced root or leaf count that does not match (the processor halts), a recurring rollup-exit-tree state, or a
    failing storage statement (`processBlockF`) — the tables and both stored trees are exactly as before. -/
theorem C07_l1info_atomic (H : HashAlg α) (n : Nat) (s : LP α) (b : Block α) :
    ((processBlock H n s b).2 ≠ .ok → (processBlock H n s b).1.tb = s.tb) ∧
    (processBlockF H n s b).1 = s ∧ (processBlockF H n s b).2 ≠ .ok := by
  refine ⟨?_, ?_, ?_⟩
  · intro h
    unfold processBlock at h ⊢
    by_cases hh : s.halted = true
    · rw [if_pos hh]
    · by_cases hc : s.tb.blocks.contains b.num = true
      · rw [if_neg hh, if_pos hc]
      · rw [if_neg hh, if_neg hc] at h ⊢
        simp only at h ⊢
        generalize procEvents H n b.num _ _ b.events = res at h ⊢
        obtain ⟨w, halt, r⟩ := res
        cases r with
        | some e => rfl
        | none => exact absurd rfl h
  · unfold processBlockF; split <;> rfl
  · unfold processBlockF; split <;> simp

end Aggkit.C07x

namespace Aggkit.LastGER

/-- **injected-GER store, all-or-nothing**: a `ProcessBlock` that does not succeed leaves the store as it was -/
theorem C07_ger_atomic (s : St) (bn : Nat) (ev : Option GEv) :
    (processBlock s bn ev).2 ≠ .ok → (processBlock s bn ev).1 = s := by
  intro h
  unfold processBlock at h ⊢
  split
  · rfl
  · rename_i hc
    simp only [hc] at h
    cases ev with
    | none => simp at h
    | some e => cases e <;> simp at h

end Aggkit.LastGER
