import AggkitModel.Model.Epoch
/-
C18 — each epoch is announced exactly once, at the first block past the threshold.
`run` is the code (a counter `waitingForEpoch`), `spec` is the property (a set of announced
epochs: announce at the first qualifying block of an epoch, never again). They coincide on every
strictly increasing block sequence at or after the starting block, for every configuration.
-/
namespace Aggkit.Epoch

theorem epoch_mono (c : Cfg) (a b : Nat) (ha : c.S ≤ a) (hab : a ≤ b) :
    epochNumber c a ≤ epochNumber c b := by
  unfold epochNumber
  have h1 : ¬ a < c.S := by omega
  have h2 : ¬ b < c.S := by omega
  simp only [h1, h2, if_false]
  have : (a - c.S) / c.N ≤ (b - c.S) / c.N := Nat.div_le_div_right (by omega)
  omega

theorem epoch_pos (c : Cfg) (b : Nat) (h : c.S ≤ b) : 1 ≤ epochNumber c b := by
  unfold epochNumber; have : ¬ b < c.S := by omega
  simp only [this, if_false]; exact Nat.le_add_right 1 _

/-- the refinement lemma: counter state ≈ set state for all future epochs `≥ lo` -/
theorem runFrom_eq_spec (c : Cfg) :
    ∀ (bs : List Nat) (st : St) (done : Nat → Bool) (lo : Nat),
      bs.Pairwise (· < ·) →
      (∀ b ∈ bs, c.S ≤ b ∧ st.lastBlockSeen ≤ b ∧ lo ≤ epochNumber c b) →
      st.waitingForEpoch ≤ lo + 1 →
      (∀ e, lo ≤ e → done e = decide (e < st.waitingForEpoch)) →
      runFrom c st bs = spec c done bs := by
  intro bs
  induction bs with
  | nil => intros; rfl
  | cons b bs ih =>
    intro st done lo hsorted hall hw hdone
    obtain ⟨hS, hlast, hlo⟩ := hall b (by simp)
    have hrest := (List.pairwise_cons.mp hsorted)
    have hfut : ∀ b' ∈ bs, c.S ≤ b' ∧ b ≤ b' ∧ epochNumber c b ≤ epochNumber c b' := by
      intro b' hb'
      have hlt := hrest.1 b' hb'
      exact ⟨by omega, by omega, epoch_mono c b b' hS (by omega)⟩
    have hd := hdone (epochNumber c b) hlo
    unfold runFrom spec step
    have h1 : ¬ b < c.S := by omega
    have h2 : ¬ b < st.lastBlockSeen := by omega
    simp only [h1, h2, if_false]
    by_cases hr : reached c b = true
    · by_cases hwait : epochNumber c b + 1 > st.waitingForEpoch
      · -- notify
        have hnd : done (epochNumber c b) = false := by rw [hd]; simp; omega
        simp only [hr, hwait, decide_true, Bool.and_self, if_true, hnd, Bool.not_false]
        congr 1
        apply ih _ _ (epochNumber c b) hrest.2
        · intro b' hb'; obtain ⟨a1, a2, a3⟩ := hfut b' hb'; exact ⟨a1, a2, a3⟩
        · simp
        · intro e he
          by_cases hee : e = epochNumber c b
          · subst hee; simp
          · have : done e = false := by rw [hdone e (by omega)]; simp; omega
            have hne : (e == epochNumber c b) = false := by simp [hee]
            rw [this, hne]; simp; omega
      · have hnd : done (epochNumber c b) = true := by rw [hd]; simp; omega
        simp only [hr, hwait, decide_false, Bool.and_false, Bool.false_eq_true, if_false, hnd, Bool.not_true]
        apply ih _ _ (epochNumber c b) hrest.2
        · intro b' hb'; obtain ⟨a1, a2, a3⟩ := hfut b' hb'; exact ⟨a1, a2, a3⟩
        · simp; omega
        · intro e he; exact hdone e (by omega)
    · have hr' : reached c b = false := by simpa using hr
      simp only [hr', Bool.false_and, Bool.false_eq_true, if_false]
      apply ih _ _ (epochNumber c b) hrest.2
      · intro b' hb'; obtain ⟨a1, a2, a3⟩ := hfut b' hb'; exact ⟨a1, a2, a3⟩
      · simp; omega
      · intro e he; exact hdone e (by omega)

/-- **C18** (full strength after fix a14873a): for every configuration and every strictly increasing
    block sequence starting at or after the starting block — any gaps, any length — the notifier
    announces exactly the epochs the specification announces, at the same blocks. -/
theorem C18_exact (c : Cfg) (bs : List Nat) (hs : bs.Pairwise (· < ·)) (hS : ∀ b ∈ bs, c.S ≤ b) :
    run c bs = spec c (fun _ => false) bs := by
  unfold run
  apply runFrom_eq_spec c bs (init c) (fun _ => false) 1 hs
  · intro b hb
    exact ⟨hS b hb, by simp [init]; exact hS b hb, epoch_pos c b (hS b hb)⟩
  · have : epochNumber c c.S = 1 := by unfold epochNumber; simp
    simp [init, this]
  · intro e he
    have : epochNumber c c.S = 1 := by unfold epochNumber; simp
    simp [init, this]; omega

/-- the specification announces no epoch twice and only at qualifying blocks of that epoch;
    with `done` = the set already announced -/
theorem spec_sound (c : Cfg) : ∀ (bs : List Nat) (done : Nat → Bool) (x : Nat × Nat),
    x ∈ spec c done bs → x.1 ∈ bs ∧ reached c x.1 = true ∧ x.2 = epochNumber c x.1 ∧ done x.2 = false := by
  intro bs
  induction bs with
  | nil => intro done x hx; simp [spec] at hx
  | cons b bs ih =>
    intro done x hx
    unfold spec at hx
    split at hx
    · rename_i hc
      simp only [Bool.and_eq_true, Bool.not_eq_true'] at hc
      rcases List.mem_cons.mp hx with h | h
      · subst h; exact ⟨by simp, hc.1, rfl, hc.2⟩
      · obtain ⟨a1, a2, a3, a4⟩ := ih _ x h
        simp only [Bool.or_eq_false_iff] at a4
        exact ⟨by simp [a1], a2, a3, a4.1⟩
    · obtain ⟨a1, a2, a3, a4⟩ := ih _ x hx
      exact ⟨by simp [a1], a2, a3, a4⟩

/-- epochs announced by the specification are pairwise distinct (exactly once) -/
theorem spec_nodup (c : Cfg) : ∀ (bs : List Nat) (done : Nat → Bool),
    ((spec c done bs).map (·.2)).Nodup := by
  intro bs
  induction bs with
  | nil => intro done; simp [spec]
  | cons b bs ih =>
    intro done
    unfold spec
    split
    · simp only [List.map_cons, List.nodup_cons]
      refine ⟨?_, ih _⟩
      intro hmem
      obtain ⟨x, hx, hx2⟩ := List.mem_map.mp hmem
      have := (spec_sound c bs _ x hx).2.2.2
      simp [hx2] at this
    · exact ih _

/-- completeness of the specification: a qualifying block's epoch is announced unless it already was -/
theorem spec_complete (c : Cfg) : ∀ (bs : List Nat) (done : Nat → Bool) (b : Nat),
    b ∈ bs → reached c b = true → done (epochNumber c b) = false →
    epochNumber c b ∈ (spec c done bs).map (·.2) := by
  intro bs
  induction bs with
  | nil => intro done b hb; simp at hb
  | cons a bs ih =>
    intro done b hb hr hd
    unfold spec
    by_cases hc : (reached c a && !done (epochNumber c a)) = true
    · simp only [hc, if_true, List.map_cons, List.mem_cons]
      by_cases he : epochNumber c b = epochNumber c a
      · exact Or.inl he
      · right
        rcases List.mem_cons.mp hb with h | h
        · subst h; exact absurd rfl he
        · exact ih _ b h hr (by simp [hd, he])
    · simp only [hc, Bool.false_eq_true, if_false]
      rcases List.mem_cons.mp hb with h | h
      · subst h; simp [hr, hd] at hc
      · exact ih _ b h hr hd

/-- corollaries in the property's own words -/
theorem C18_exactly_once (c : Cfg) (bs : List Nat) (hs : bs.Pairwise (· < ·)) (hS : ∀ b ∈ bs, c.S ≤ b) :
    ((run c bs).map (·.2)).Nodup ∧
    (∀ x ∈ run c bs, x.1 ∈ bs ∧ reached c x.1 = true ∧ x.2 = epochNumber c x.1) ∧
    (∀ b ∈ bs, reached c b = true → epochNumber c b ∈ (run c bs).map (·.2)) := by
  rw [C18_exact c bs hs hS]
  refine ⟨spec_nodup c bs _, ?_, ?_⟩
  · intro x hx; obtain ⟨a1, a2, a3, _⟩ := spec_sound c bs _ x hx; exact ⟨a1, a2, a3⟩
  · intro b hb hr; exact spec_complete c bs _ b hb hr rfl

/-- announced epochs strictly increase -/
theorem runFrom_increasing (c : Cfg) : ∀ (bs : List Nat) (st : St),
    bs.Pairwise (· < ·) → (∀ b ∈ bs, c.S ≤ b ∧ st.lastBlockSeen ≤ b) →
    ((runFrom c st bs).map (·.2)).Pairwise (· < ·) ∧ ∀ x ∈ runFrom c st bs, st.waitingForEpoch ≤ x.2 := by
  intro bs
  induction bs with
  | nil => intro st _ _; simp [runFrom]
  | cons b bs ih =>
    intro st hs hall
    obtain ⟨hS, hlast⟩ := hall b (by simp)
    have hrest := List.pairwise_cons.mp hs
    have hfut : ∀ b' ∈ bs, c.S ≤ b' ∧ b ≤ b' := fun b' hb' => by
      have := hrest.1 b' hb'; omega
    unfold runFrom step
    have h1 : ¬ b < c.S := by omega
    have h2 : ¬ b < st.lastBlockSeen := by omega
    simp only [h1, h2, if_false]
    split
    · rename_i st' e p heq
      split at heq
      · rename_i hc
        simp only [Prod.mk.injEq, Option.some.injEq] at heq
        obtain ⟨hst, he, _⟩ := heq
        subst hst; subst he
        simp only [Bool.and_eq_true, decide_eq_true_eq] at hc
        obtain ⟨ihp, ihw⟩ := ih { lastBlockSeen := b, waitingForEpoch := epochNumber c b + 1 } hrest.2
          (fun b' hb' => hfut b' hb')
        refine ⟨?_, ?_⟩
        · simp only [List.map_cons, List.pairwise_cons]
          refine ⟨?_, ihp⟩
          intro e' he'
          obtain ⟨x, hx, hx2⟩ := List.mem_map.mp he'
          have := ihw x hx; simp at this; omega
        · intro x hx
          rcases List.mem_cons.mp hx with h | h
          · subst h; simp; omega
          · have := ihw x h; simp at this; omega
      · simp at heq
    · rename_i st' heq
      split at heq
      · simp at heq
      · simp only [Prod.mk.injEq, and_true] at heq
        subst heq
        exact ih _ hrest.2 (fun b' hb' => hfut b' hb')

theorem C18_increasing (c : Cfg) (bs : List Nat) (hs : bs.Pairwise (· < ·)) (hS : ∀ b ∈ bs, c.S ≤ b) :
    ((run c bs).map (·.2)).Pairwise (· < ·) :=
  (runFrom_increasing c bs (init c) hs (fun b hb => ⟨hS b hb, by simp [init]; exact hS b hb⟩)).1

/-- re-delivering the block last seen never notifies a second time (what the fix relies on) -/
theorem step_same_block_silent (c : Cfg) (st : St) (b : Nat) :
    (step c (step c st b).1 b).2 = none ∨ (step c st b).2 = none := by
  unfold step
  by_cases h1 : b < c.S <;> by_cases h2 : b < st.lastBlockSeen <;> simp [h1, h2]
  by_cases hr : reached c b <;> by_cases hw : st.waitingForEpoch < epochNumber c b + 1 <;> simp [hr, hw]

/-- non-vacuity: a concrete run with skipped epochs, and the starting block itself announced at 0% -/
example : run ⟨10, 4, 50⟩ [10, 11, 12, 13, 24, 25, 33] = [(12, 1), (24, 4), (33, 6)] := by decide
example : run ⟨10, 4, 0⟩ [10, 14, 15, 22] = [(10, 1), (14, 2), (22, 4)] := by decide

end Aggkit.Epoch
