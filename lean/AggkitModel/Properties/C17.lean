import AggkitModel.Model.CertRange
import AggkitModel.Generated.BlockRange
import AggkitModel.Generated.Limiter
/-
C17 — cutting a certificate's block range never drops, duplicates or reorders events; range arithmetic
never reports a gap between touching or overlapping ranges.
The block-range functions are the REGENERATED translation of aggsender/types/block_range.go (uint64
wrap-around included): these theorems are re-checked against what the Go source says on every run.
-/
namespace Aggkit.C17
open Aggkit.GenPrelude Aggkit.Gen.BlockRange Aggkit.CertRange

private theorem p64 : (2:Nat)^64 = 18446744073709551616 := by decide

/-- a well-formed uint64 block range -/
def wf (a : BlockRange) : Prop := a.FromBlock ≤ a.ToBlock ∧ a.ToBlock < 2^64

/-- the two ranges overlap or are adjacent (in unbounded arithmetic) -/
def touchOrOverlap (a b : BlockRange) : Prop := a.ToBlock + 1 ≥ b.FromBlock ∧ b.ToBlock + 1 ≥ a.FromBlock

/-- **no gap is ever reported between touching or overlapping ranges** — all uint64 endpoints, 0 and 2^64-1 included -/
theorem C17_gap_sound (a b : BlockRange) (ha : wf a) (hb : wf b) (h : touchOrOverlap a b) :
    BlockRange_IsEmpty (BlockRange_Gap a b) = true := by
  unfold wf at ha hb; unfold touchOrOverlap at h
  rw [p64] at ha hb
  have hc : (decide (a.ToBlock ≥ getBlockMinusOne b.FromBlock) && decide (b.ToBlock ≥ getBlockMinusOne a.FromBlock)) = true := by
    simp only [getBlockMinusOne, sub64, p64, Bool.and_eq_true, decide_eq_true_eq]
    constructor <;> split <;> omega
  unfold BlockRange_Gap
  rw [if_pos hc]
  simp [BlockRange_IsEmpty, BlockRange_CountBlocks]

theorem count_pos (F T : Nat) (h1 : 1 ≤ F) (h2 : F ≤ T) (h3 : T < 18446744073709551616) :
    BlockRange_CountBlocks { FromBlock := F, ToBlock := T } = T - F + 1 := by
  simp only [BlockRange_CountBlocks, add64, sub64, p64]
  have c1 : ((F == 0) && (T == 0)) = false := by
    have : (F == 0) = false := by simp; omega
    simp [this]
  have c2 : ¬ (F > T) := by omega
  simp only [c1, Bool.false_eq_true, if_false, c2, decide_false]
  omega

/-- otherwise the reported gap is exactly the blocks strictly between the two ranges, and it is not empty -/
theorem C17_gap_exact (a b : BlockRange) (ha : wf a) (hb : wf b) (h : ¬ touchOrOverlap a b) :
    BlockRange_Gap a b =
      (if a.ToBlock < b.FromBlock then { FromBlock := a.ToBlock + 1, ToBlock := b.FromBlock - 1 }
       else { FromBlock := b.ToBlock + 1, ToBlock := a.FromBlock - 1 }) ∧
    BlockRange_IsEmpty (BlockRange_Gap a b) = false ∧
    (BlockRange_Gap a b).FromBlock ≤ (BlockRange_Gap a b).ToBlock := by
  unfold wf at ha hb; unfold touchOrOverlap at h
  rw [p64] at ha hb
  have hc : ¬ ((decide (a.ToBlock ≥ getBlockMinusOne b.FromBlock) && decide (b.ToBlock ≥ getBlockMinusOne a.FromBlock)) = true) := by
    simp only [getBlockMinusOne, sub64, p64, Bool.and_eq_true, decide_eq_true_eq]
    intro ⟨h1, h2⟩
    apply h
    constructor
    · split at h1 <;> omega
    · split at h2 <;> omega
  unfold BlockRange_Gap
  rw [if_neg hc]
  by_cases hlt : a.ToBlock < b.FromBlock
  · have hgap : a.ToBlock + 1 < b.FromBlock := by omega
    simp only [hlt, decide_true, if_true]
    have e1 : add64 a.ToBlock 1 = a.ToBlock + 1 := by simp only [add64, p64]; omega
    have e2 : sub64 b.FromBlock 1 = b.FromBlock - 1 := by simp only [sub64, p64]; omega
    rw [e1, e2]
    refine ⟨rfl, ?_, ?_⟩
    · simp only [BlockRange_IsEmpty]
      rw [count_pos _ _ (by omega) (by omega) (by omega)]
      simp
    · show a.ToBlock + 1 ≤ b.FromBlock - 1; omega
  · have hgap : b.ToBlock + 1 < a.FromBlock := by omega
    simp only [hlt, decide_false, Bool.false_eq_true, if_false]
    have e1 : add64 b.ToBlock 1 = b.ToBlock + 1 := by simp only [add64, p64]; omega
    have e2 : getBlockMinusOne a.FromBlock = a.FromBlock - 1 := by
      simp only [getBlockMinusOne, sub64, p64]
      have : a.FromBlock > 0 := by omega
      simp only [this, decide_true, if_true]; omega
    rw [e1, e2]
    refine ⟨rfl, ?_, ?_⟩
    · simp only [BlockRange_IsEmpty]
      rw [count_pos _ _ (by omega) (by omega) (by omega)]
      simp
    · show b.ToBlock + 1 ≤ a.FromBlock - 1; omega

/-- `CountBlocks` characterised on every uint64 range, including the two ambiguous points:
    `[0,0]` counts as empty (sentinel) and the full range `[0, 2^64-1]` wraps to 0 -/
theorem C17_count (a : BlockRange) (ha : wf a) :
    BlockRange_CountBlocks a =
      if a.FromBlock = 0 ∧ a.ToBlock = 0 then 0
      else if a.FromBlock = 0 ∧ a.ToBlock = 2^64 - 1 then 0
      else a.ToBlock - a.FromBlock + 1 := by
  unfold wf at ha; rw [p64] at ha
  rw [p64]
  by_cases h0 : a.FromBlock = 0 ∧ a.ToBlock = 0
  · simp only [BlockRange_CountBlocks, h0.1, h0.2, if_true]; simp
  · rw [if_neg h0]
    have c1 : ((a.FromBlock == 0) && (a.ToBlock == 0)) = false := by
      rw [Bool.and_eq_false_iff]
      by_cases e : a.FromBlock = 0
      · right; simp; omega
      · left; simp [e]
    have c2 : ¬ (a.FromBlock > a.ToBlock) := by omega
    simp only [BlockRange_CountBlocks, add64, sub64, p64, c1, Bool.false_eq_true, if_false, c2, decide_false]
    split <;> omega

/-! ### Range / limitCertSize / AdaptCertificate (hand model, tied by the `range-arith` correspondence) -/

/-- well-formed build parameters: what `GetBridgesAndClaims(from, to)` returns -/
def WFp (p : Params) : Prop :=
  p.from_ ≤ p.to_ ∧ (∀ e ∈ p.bridges, inRange p.from_ p.to_ e = true) ∧ (∀ e ∈ p.claims, inRange p.from_ p.to_ e = true)

theorem filter_inRange_self (l : List Ev) (f t : Nat) (h : ∀ e ∈ l, inRange f t e = true) :
    l.filter (inRange f t) = l := List.filter_eq_self.mpr h

/-- `Range` keeps exactly the events of the requested blocks, in their original order, and nothing else changes -/
theorem C17_range_exact (p q : Params) (f t : Nat) (hp : WFp p) (h : range p f t = some q) :
    q.from_ = f ∧ q.to_ = t ∧ q.bridges = p.bridges.filter (inRange f t) ∧
    q.claims = p.claims.filter (inRange f t) ∧ q.fep = p.fep ∧ q.retry = p.retry ∧
    p.from_ ≤ f ∧ t ≤ p.to_ ∧ f ≤ t := by
  unfold range at h
  split at h
  · rename_i hc
    simp only [Option.some.injEq] at h; subst h
    obtain ⟨e1, e2⟩ := hc
    subst e1 e2
    exact ⟨rfl, rfl, (filter_inRange_self _ _ _ hp.2.1).symm, (filter_inRange_self _ _ _ hp.2.2).symm, rfl, rfl,
      Nat.le_refl _, Nat.le_refl _, hp.1⟩
  · split at h
    · simp at h
    · split at h
      · simp at h
      · simp only [Option.some.injEq] at h; subst h
        refine ⟨rfl, rfl, rfl, rfl, rfl, rfl, ?_, ?_, ?_⟩ <;> omega

theorem range_wf (p q : Params) (f t : Nat) (hp : WFp p) (h : range p f t = some q) : WFp q := by
  obtain ⟨a1, a2, a3, a4, _, _, _, _, a9⟩ := C17_range_exact p q f t hp h
  refine ⟨by omega, ?_, ?_⟩
  · intro e he; rw [a3] at he; rw [a1, a2]; exact (List.mem_filter.mp he).2
  · intro e he; rw [a4] at he; rw [a1, a2]; exact (List.mem_filter.mp he).2

theorem inRange_narrow (f t t' : Nat) (ht : t' ≤ t) (l : List Ev) :
    (l.filter (inRange f t)).filter (inRange f t') = l.filter (inRange f t') := by
  rw [List.filter_filter]
  apply List.filter_congr
  intro e _
  simp only [inRange, Bool.and_eq_true, decide_eq_true_eq]
  by_cases h1 : f ≤ e.block <;> by_cases h2 : e.block ≤ t' <;> simp [h1, h2] <;> omega

/-- the result of a prefix cut `[from, t]` of `p` as one filter of the original events -/
def cutTo (p : Params) (t : Nat) : Params :=
  { p with to_ := t, bridges := p.bridges.filter (inRange p.from_ t), claims := p.claims.filter (inRange p.from_ t) }

theorem limitAux_spec (size : Params → Nat) (maxSize : Nat) (p : Params) (hp : WFp p) :
    ∀ (fuel : Nat) (cur : Params), cur = cutTo p cur.to_ → p.from_ ≤ cur.to_ → cur.to_ ≤ p.to_ →
      cur.to_ - p.from_ + 2 ≤ fuel + 1 →
      (∀ t, cur.to_ < t → t ≤ p.to_ → ¬ (maxSize = 0 ∨ size (cutTo p t) ≤ maxSize)) →
      ∃ q, limitAux size maxSize fuel cur = some q ∧ q = cutTo p q.to_ ∧ p.from_ ≤ q.to_ ∧ q.to_ ≤ p.to_ ∧
        (maxSize = 0 ∨ size q ≤ maxSize ∨ q.to_ = q.from_) ∧
        (∀ t, q.to_ < t → t ≤ p.to_ → ¬ (maxSize = 0 ∨ size (cutTo p t) ≤ maxSize)) := by
  intro fuel
  induction fuel with
  | zero => intro cur _ h1 _ hf _; omega
  | succ fuel ih =>
    intro cur hcur h1 h2 hf hmax
    have hcf : cur.from_ = p.from_ := by rw [hcur]; rfl
    unfold limitAux
    by_cases hfit : maxSize = 0 ∨ size cur ≤ maxSize
    · rw [if_pos hfit]
      refine ⟨cur, rfl, hcur, h1, h2, ?_, hmax⟩
      rcases hfit with h | h
      · exact Or.inl h
      · exact Or.inr (Or.inl h)
    · rw [if_neg hfit]
      by_cases hone : cur.to_ - cur.from_ + 1 ≤ 1
      · rw [if_pos hone]
        refine ⟨cur, rfl, hcur, h1, h2, Or.inr (Or.inr (by rw [hcf]; omega)), hmax⟩
      · rw [if_neg hone]
        have hwf : WFp cur := by
          rw [hcur]
          refine ⟨by simp [cutTo]; exact h1, ?_, ?_⟩ <;>
          · intro e he; simp only [cutTo] at he ⊢; exact (List.mem_filter.mp he).2
        have hr : range cur cur.from_ (cur.to_ - 1) = some (cutTo p (cur.to_ - 1)) := by
          unfold range
          have n1 : ¬ (cur.from_ = cur.from_ ∧ cur.to_ = cur.to_ - 1) := by omega
          have n2 : ¬ (cur.from_ > cur.from_ ∨ cur.to_ < cur.to_ - 1) := by omega
          have n3 : ¬ (cur.from_ > cur.to_ - 1) := by omega
          rw [if_neg n1, if_neg n2, if_neg n3]
          congr 1
          rw [hcur]
          simp only [cutTo]
          rw [inRange_narrow _ _ _ (by omega), inRange_narrow _ _ _ (by omega)]
        rw [hr]
        simp only
        apply ih (cutTo p (cur.to_ - 1)) rfl
        · simp only [cutTo]; rw [hcf] at hone; omega
        · simp only [cutTo]; omega
        · simp only [cutTo]; rw [hcf] at hone; omega
        · intro t ht1 ht2
          simp only [cutTo] at ht1
          by_cases e : t = cur.to_
          · subst e; rw [← hcur]; exact hfit
          · exact hmax t (by omega) ht2

/-- **limitCertSize**: never fails on well-formed input, keeps the first block, ends at the LARGEST
    block whose prefix fits (every longer prefix is over the limit), contains exactly the events of the
    kept blocks in their original order, and exceeds the limit only as a single block. Holds for ANY size
    function (in particular for the float64 `EstimatedSize`). -/
theorem C17_limit (size : Params → Nat) (maxSize : Nat) (p : Params) (hp : WFp p) :
    ∃ q, limitCertSize size maxSize p = some q ∧
      q.from_ = p.from_ ∧ q.from_ ≤ q.to_ ∧ q.to_ ≤ p.to_ ∧
      q.bridges = p.bridges.filter (inRange p.from_ q.to_) ∧ q.claims = p.claims.filter (inRange p.from_ q.to_) ∧
      (maxSize = 0 ∨ size q ≤ maxSize ∨ q.to_ = q.from_) ∧
      (∀ t, q.to_ < t → t ≤ p.to_ → maxSize ≠ 0 ∧ size (cutTo p t) > maxSize) := by
  have hself : p = cutTo p p.to_ := by
    simp only [cutTo]
    rw [filter_inRange_self _ _ _ hp.2.1, filter_inRange_self _ _ _ hp.2.2]
  obtain ⟨q, h1, h2, h3, h4, h5, h6⟩ := limitAux_spec size maxSize p hp (p.to_ - p.from_ + 2) p hself hp.1
    (Nat.le_refl _) (by omega) (fun t h1 h2 => by omega)
  refine ⟨q, h1, ?_, ?_, h4, ?_, ?_, h5, ?_⟩
  · rw [h2]; rfl
  · rw [h2]; exact h3
  · have := congrArg Params.bridges h2; simpa [cutTo] using this
  · have := congrArg Params.claims h2; simpa [cutTo] using this
  · intro t a b
    have := h6 t a b
    constructor
    · intro h0; exact this (Or.inl h0)
    · have : ¬ size (cutTo p t) ≤ maxSize := fun h => this (Or.inr h)
      omega

/-- **last-block limit**: when the limiter cuts, the result is the prefix ending exactly at the configured block -/
theorem C17_clamp (maxL2 : Nat) (allow req : Bool) (p q : Params) (_hp : WFp p)
    (h : adapt maxL2 allow req p = .ok q) :
    (q = p ∧ (maxL2 = 0 ∨ p.to_ ≤ maxL2)) ∨
    (maxL2 ≠ 0 ∧ p.to_ > maxL2 ∧ p.from_ ≤ maxL2 ∧ q = cutTo p maxL2 ∧ (p.retry = true → allow = true)) := by
  unfold adapt at h
  split at h
  · left; simp only [Except.ok.injEq] at h; exact ⟨h.symm, Or.inl ‹_›⟩
  · split at h
    · left; simp only [Except.ok.injEq] at h; exact ⟨h.symm, Or.inr ‹_›⟩
    · split at h
      · simp at h
      · rename_i hretry
        split at h
        · simp at h
        · split at h
          · simp at h
          · rename_i h0 h1 _ h3
            right
            have hfrom : p.from_ ≤ maxL2 := by omega
            have hr : range p p.from_ maxL2 = some (cutTo p maxL2) := by
              unfold range
              have n1 : ¬ (p.from_ = p.from_ ∧ p.to_ = maxL2) := by omega
              have n2 : ¬ (p.from_ > p.from_ ∨ p.to_ < maxL2) := by omega
              have n3 : ¬ (p.from_ > maxL2) := by omega
              rw [if_neg n1, if_neg n2, if_neg n3]; rfl
            rw [hr] at h
            simp only at h
            refine ⟨h0, by omega, hfrom, ?_, ?_⟩
            · split at h
              · simp only [Except.ok.injEq] at h; exact h.symm
              · split at h
                · split at h <;> simp at h
                · simp only [Except.ok.injEq] at h; exact h.symm
            · intro hr'
              cases allow
              · simp [hr'] at hretry
              · rfl

/-- non-vacuity -/
example : WFp { from_ := 1, to_ := 10, bridges := [⟨3, 0, 0⟩, ⟨7, 5, 1⟩], claims := [⟨7, 0, 2⟩] } := by
  simp [WFp, inRange]
example : wf { FromBlock := 10, ToBlock := 2^64 - 1 } ∧ wf { FromBlock := 5, ToBlock := 20 } ∧
    touchOrOverlap { FromBlock := 5, ToBlock := 20 } { FromBlock := 10, ToBlock := 2^64 - 1 } := by
  simp [wf, touchOrOverlap]

end Aggkit.C17
