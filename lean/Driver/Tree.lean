import Driver.Common
import AggkitModel.Model.TreeMachine
namespace Driver.Tree
open Aggkit

abbrev Hash := ByteArray

def keccakAlg : HashAlg Hash :=
  { node := fun l r => Keccak.keccak256 (l ++ r), zero := ByteArray.mk (Array.replicate 32 0) }

def H := keccakAlg
def N : Nat := 32

def hexOf (b : Hash) : String := toHex (byteArrayToBytes b)
def hashOf (s : String) : Option Hash := (fromHex s).map bytesToByteArray

def errStr : TreeErr → String
  | .notFound => "notFound" | .invalidIndex => "invalidIndex" | .constraint => "constraint" | .fault => "fault"

def rootStr (r : RootRow Hash) : String := s!"root {hexOf r.hash} {r.index} {r.blockNum} {r.blockPos}"

def outStr : TMOut Hash → String
  | .ok => "ok" | .root h => s!"root {hexOf h}" | .err e => s!"err {errStr e}" | .badOp => "bad-op"

def concatAll (l : List Hash) : Hash := l.foldl (· ++ ·) ByteArray.empty

def step (s : TM Hash) (ws : List String) : TM Hash × String :=
  let run (op : TMOp Hash) := let (s', o) := TM.step H N s op; (s', outStr o)
  match ws with
  | ["new"] => (TM.init H N, "ok")
  -- independent trees filled concurrently: nothing is shared between them, so each behaves as if it were alone
  | ["par", _, _] => (s, "par ok")
  | ["begin"] => run .begin
  | ["commit"] => run .commit
  | ["rollback"] => run .rollback
  | ["restart"] => run .restart
  | ["reorg", b] => match b.toNat? with
    | some b => run (.reorg b)
    | none => (s, "bad-op")
  | ["add", bn, bp, idx, leaf] =>
    match bn.toNat?, bp.toNat?, idx.toNat?, hashOf leaf with
    | some bn, some bp, some idx, some leaf => run (.add bn bp idx leaf)
    | _, _, _, _ => (s, "bad-op")
  | ["addF", k, bn, bp, idx, leaf] =>
    match k.toNat?, bn.toNat?, bp.toNat?, idx.toNat?, hashOf leaf with
    | some k, some bn, some bp, some idx, some leaf => run (.addF k bn bp idx leaf)
    | _, _, _, _, _ => (s, "bad-op")
  | ["upsertF", k, bn, bp, idx, leaf] =>
    match k.toNat?, bn.toNat?, bp.toNat?, idx.toNat?, hashOf leaf with
    | some k, some bn, some bp, some idx, some leaf => run (.upsertF k bn bp idx leaf)
    | _, _, _, _, _ => (s, "bad-op")
  | ["upsert", bn, bp, idx, leaf] =>
    match bn.toNat?, bp.toNat?, idx.toNat?, hashOf leaf with
    | some bn, some bp, some idx, some leaf => run (.upsert bn bp idx leaf)
    | _, _, _, _ => (s, "bad-op")
  | ["fab", bn, bp, idx, leaf, seed] =>
    match bn.toNat?, bp.toNat?, idx.toNat?, hashOf leaf, hashOf seed with
    | some bn, some bp, some idx, some leaf, some seed =>
      -- harness-defined pre-state: the path of `idx` with pseudo-random completed left subtrees
      let sibs := (List.range N).map (fun h =>
        if idx.testBit h then Keccak.keccak256 (seed ++ ByteArray.mk #[h.toUInt8]) else zeroH H h)
      let (root, nodes) := upsertLoop H idx sibs 0 leaf []
      match storeRoot s.db { hash := root, index := idx, blockNum := bn, blockPos := bp } with
      | .error _ => (s, "err constraint")
      | .ok db' => ({ s with db := { db' with rht := storeNodes db'.rht nodes } }, s!"root {hexOf root}")
    | _, _, _, _, _ => (s, "bad-op")
  | ["q", "verify", i, r, _] => match i.toNat?, hashOf r with
    | some i, some r =>
      match getLeaf N s.db i r with
      | .error _ => (s, "verify err")
      | .ok l => (s, s!"verify {hexOf l} {hexOf (calcRoot H l (getProof H N s.db i r) i)}")
    | _, _ => (s, "bad-op")
  | ["q", "lastroot"] => match getLastRoot s.db with
    | some r => (s, rootStr r)
    | none => (s, "notfound")
  -- the lookup while the root table cannot be read: an error, never a root
  | ["q", "rootidx!", _] => (s, "err fault")
  | ["q", "rootidx", i] => match i.toNat? with
    | some i => match getRootByIndex s.db i with
      | some r => (s, rootStr r)
      | none => (s, "notfound")
    | none => (s, "bad-op")
  | ["q", "roothash", h] => match hashOf h with
    | some h => match getRootByHash s.db h with
      | some r => (s, rootStr r)
      | none => (s, "notfound")
    | none => (s, "bad-op")
  | ["q", "proof", i, r] => match i.toNat?, hashOf r with
    | some i, some r =>
      let p := getProof H N s.db i r
      (s, s!"proof {hexOf (Keccak.keccak256 (concatAll p))}")
    | _, _ => (s, "bad-op")
  | ["q", "calc", i, r, leaf] => match i.toNat?, hashOf r, hashOf leaf with
    | some i, some r, some leaf =>
      let p := getProof H N s.db i r
      (s, s!"calc {hexOf (calcRoot H leaf p i)}")
    | _, _, _ => (s, "bad-op")
  | ["q", "leaf", i, r] => match i.toNat?, hashOf r with
    | some i, some r => match getLeaf N s.db i r with
      | .ok l => (s, s!"leaf {hexOf l}")
      | .error e => (s, s!"err {errStr e}")
    | _, _ => (s, "bad-op")
  | _ => (s, "bad-op")

end Driver.Tree
