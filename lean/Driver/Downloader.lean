import Driver.Common
import AggkitModel.Model.Downloader
namespace Driver.Downloader
open Aggkit.Downloader

def parseChain (s : String) : Option (List (Nat × List Nat)) :=
  if s = "-" then some [] else
  (s.splitOn ";").mapM (fun it => match it.splitOn ":" with
    | [b, ids] => do
      let b ← b.toNat?
      let ids ← (ids.splitOn ",").mapM (·.toNat?)
      pure (b, ids)
    | _ => none)

def parseInputs (s : String) : Option (List Input) :=
  if s = "-" then some [] else
  (s.splitOn ";").mapM (fun it => match it.splitOn "," with
    | [t, f, ok] => do
      let t ← t.toNat?; let f ← f.toNat?
      pure { tip := t, fin := f, finOk := ok = "1" }
    | _ => none)

def showD (d : Delivered) : String :=
  s!"{d.num}:{",".intercalate (d.events.map toString)}:{boolStr d.finalized}"

def step (_ : Unit) (ws : List String) : Unit × String :=
  match ws with
  | "run" :: start :: chunk :: finTag :: tip0 :: chain :: inputs :: rest =>
    match start.toNat?, chunk.toNat?, parseBool finTag, tip0.toNat?, parseChain chain, parseInputs inputs with
    | some start, some chunk, some ft, some tip0, some ch, some inps =>
      let env : Env := { chain := fun b => match ch.find? (fun x => x.1 == b) with | some x => x.2 | none => [], chunk := chunk, finalizedTag := ft }
      -- optional 11th field `G:i,j,…`: the range fetch of these iterations gives up (six header mismatches in a row)
      let gs : List Nat := match rest.drop 3 with
        | g :: _ => if g.startsWith "G:" then ((g.drop 2).toString.splitOn ",").filterMap (·.toNat?) else []
        | [] => []
      let s := runG env (init env start tip0) (inps.zipIdx.map (fun (i, k) => (i, gs.contains k)))
      ((), ("out " ++ " ".intercalate (s.out.map showD)).trimAsciiEnd.toString)
    | _, _, _, _, _, _ => ((), "bad-op")
  | _ => ((), "bad-op")

end Driver.Downloader
