import Driver.Common
import AggkitModel.Model.Certificate
namespace Driver.CertCodec
open Aggkit Aggkit.Certificate

def K : Bytes → Bytes := Driver.keccakBytes

def hx (b : Bytes) : String := if b.isEmpty then "-" else toHex b
def unhx (s : String) : Option Bytes := if s = "-" then some [] else fromHex s

def parseExit : List String → Option Exit
  | [lt, on, oa, dn, da, am, md] => do
    let lt ← lt.toNat?; let on ← on.toNat?; let oa ← unhx oa; let dn ← dn.toNat?; let da ← unhx da
    let am ← am.toNat?; let md ← unhx md
    pure { leafType := lt, origNet := on, origAddr := oa, destNet := dn, destAddr := da, amount := am, metadata := md }
  | _ => none

def parseBridge : List String → Option BridgeEv
  | [lt, on, oa, dn, da, am, md] => do
    let lt ← lt.toNat?; let on ← on.toNat?; let oa ← unhx oa; let dn ← dn.toNat?; let da ← unhx da
    let am ← am.toNat?; let md ← unhx md
    pure { leafType := lt, origNet := on, origAddr := oa, destNet := dn, destAddr := da, amount := am, metadata := md }
  | _ => none

def parseImp (fs : List String) : Option ImpExit :=
  match fs with
  | [lt, on, oa, dn, da, am, md, m, r, l, ch] => do
    let e ← parseExit [lt, on, oa, dn, da, am, md]
    let m ← Driver.parseBool m; let r ← r.toNat?; let l ← l.toNat?; let ch ← unhx ch
    pure { exit := e, mainnet := m, rollup := r, leaf := l, claimHash := ch }
  | _ => none

def step (_ : Unit) (ws : List String) : Unit × String :=
  match ws with
  | "bridge" :: fs =>
    match parseBridge fs with
    | some b =>
      let e := toExit K b
      ((), s!"leaf={hx (leafHash K b)} exit={hx (exitHash K e)} meta={hx e.metadata} wire={hx (wireHash K (toWire e))}")
    | none => ((), "bad-op")
  | "cert" :: net :: height :: prev :: new :: params :: rest =>
    match net.toNat?, height.toNat?, unhx prev, unhx new with
    | some net, some height, some prev, some new =>
      let params := if params = "sig" then some none else (unhx params).map some
      let es := rest.filter (·.startsWith "E:")
      let is := rest.filter (·.startsWith "I:")
      match params, es.mapM (fun t => parseExit ((t.splitOn ":").drop 1)), is.mapM (fun t => parseImp ((t.splitOn ":").drop 1)) with
      | some params, some es, some is =>
        let c : Cert := { networkID := net, height := height, prevLER := prev, newLER := new, exits := es, imps := is,
                          aggchainParams := params }
        ((), s!"id={hx (certHash K c)} pp={hx (ppCommit K c)} fep={hx (fepCommit K c)}")
      | _, _, _ => ((), "bad-op")
    | _, _, _, _ => ((), "bad-op")
  | ["meta", f, t, cr, ty] =>
    match f.toNat?, t.toNat?, cr.toNat?, ty.toNat? with
    | some f, some t, some cr, some ty => ((), s!"meta={hx (metaOfRange f t cr ty)}")
    | _, _, _, _ => ((), "bad-op")
  | ["unmeta", h] =>
    match unhx h with
    | some b =>
      match metaFromHash b with
      | some m =>
        let (f, t) := rangeOfMeta m
        ((), s!"v={m.version} from={f} to={t} created={m.createdAt} type={m.certType}")
      | none => ((), "err")
    | none => ((), "bad-op")
  | _ => ((), "bad-op")

end Driver.CertCodec
