import Driver.Common
import AggkitModel.Model.LastGER
namespace Driver.LastGER
open Aggkit.LastGER

structure W where
  st : St := {}
  chain : List (Nat × GEv) := []
  fep : Bool := false
  fst : FSt := {}
  leaves : List (Nat × Nat) := []     -- L1 info leaves (index, ger), ascending
  injected : List Nat := []           -- GERs present in the L2 GER map

def chainFn (w : W) : Chain := fun b => (w.chain.find? (fun x => x.1 == b)).map (·.2)

def step (w : W) (ws : List String) : W × String :=
  match ws with
  | ["new", "pp"] => ({}, "ok")
  | ["new", "fep"] => ({ fep := true, fst := startFEP {} }, "ok")
  | ["l1leaf", i, g] => match i.toNat?, g.toNat? with
    | some i, some g => ({ w with leaves := w.leaves ++ [(i, g)] }, "ok")
    | _, _ => (w, "bad-op")
  -- one of the next header answers disagrees with the logs once: the range is fetched again (C05_retry_transparent)
  | ["hdrfault", _] => (w, "ok")
  | ["inject", g] => match g.toNat? with
    | some g => ({ w with injected := g :: w.injected }, "ok")
    | none => (w, "bad-op")
  | "l2blk" :: b :: "ins" :: g :: i :: _ => match b.toNat?, g.toNat?, i.toNat? with
    | some b, some g, some i => ({ w with chain := w.chain.filter (fun x => x.1 != b) ++ [(b, .insert g i)] }, "ok")
    | _, _, _ => (w, "bad-op")
  | ["l2blk", b, "rm", g] => match b.toNat?, g.toNat? with
    | some b, some g => ({ w with chain := w.chain.filter (fun x => x.1 != b) ++ [(b, .remove g)] }, "ok")
    | _, _ => (w, "bad-op")
  | ["poll", t] => match t.toNat? with
    | some t =>
      if w.fep then ({ w with fst := pollFEP w.leaves (fun g => w.injected.contains g) w.fst t }, "ok")
      else ({ w with st := pollPP (chainFn w) w.st t }, "ok")
    | none => (w, "bad-op")
  -- `poll! t k`: the k-th storage statement of this poll's block processing fails once. `ProcessBlock` runs in one
  -- transaction and the driver retries a failed block, so the outcome is that of `poll t` (atomicity is SQLite's,
  -- the retry is the driver's; both are exercised by the correspondence run, neither is a theorem)
  | ["poll!", t, _] => match t.toNat? with
    | some t =>
      if w.fep then ({ w with fst := pollFEP w.leaves (fun g => w.injected.contains g) w.fst t }, "ok")
      else ({ w with st := pollPP (chainFn w) w.st t }, "ok")
    | none => (w, "bad-op")
  | ["reorg", b] => match b.toNat? with
    -- the L2 chain drops blocks ≥ b as well (the new fork is described by later l2blk ops)
    | some b =>
      if w.fep then ({ w with fst := startFEP (reorg w.fst.st b) }, "ok")
      else ({ w with st := reorg w.st b, chain := w.chain.filter (fun x => x.1 < b) }, "ok")
    | none => (w, "bad-op")
  | ["restart"] => if w.fep then ({ w with fst := startFEP w.fst.st }, "ok") else ({ w with st := restart w.st }, "ok")
  | ["q", "lpb"] => (w, s!"lpb {lpb (if w.fep then w.fst.st else w.st)}")
  | ["q", "first", x] => match x.toNat? with
    | some x => match firstAfter (if w.fep then w.fst.st else w.st) x with
      | some r => (w, s!"ger {r.ger} idx={r.idx}")
      | none => (w, "notfound")
    | none => (w, "bad-op")
  | _ => (w, "bad-op")

end Driver.LastGER
