import Driver.Common
import AggkitModel.Model.CertRange
import AggkitModel.Generated.BlockRange
import AggkitModel.Generated.Limiter
namespace Driver.RangeArith
open Aggkit.CertRange Aggkit.GenPrelude Aggkit.Gen.BlockRange Aggkit.Gen.Limiter

def parseEvs (s : String) : Option (List Ev) :=
  -- "B:" or "C:" prefix already removed; "-" = none; items blk/metalen/id separated by ','
  if s = "-" then some [] else
  (s.splitOn ",").mapM (fun it => match it.splitOn "/" with
    | [a, b, c] => do
      let a ← a.toNat?; let b ← b.toNat?; let c ← c.toNat?
      pure ⟨a, b, c⟩
    | _ => none)

def ids (l : List Ev) : String := if l.isEmpty then "-" else ",".intercalate (l.map (fun e => toString e.id))

def parseParams (fep retry from_ to_ b c : String) : Option Params := do
  let fep ← parseBool fep; let retry ← parseBool retry
  let f ← from_.toNat?; let t ← to_.toNat?
  let bs ← parseEvs ((b.drop 2).toString); let cs ← parseEvs ((c.drop 2).toString)
  pure { from_ := f, to_ := t, bridges := bs, claims := cs, fep := fep, retry := retry }

def showP (tag : String) (q : Params) : String :=
  s!"{tag} {q.from_} {q.to_} b={ids q.bridges} c={ids q.claims} size={sizeFloat q} retry={boolStr q.retry} fep={boolStr q.fep}"

def step (_ : Unit) (ws : List String) : Unit × String :=
  match ws with
  | ["gap", a1, a2, b1, b2] =>
    match a1.toNat?, a2.toNat?, b1.toNat?, b2.toNat? with
    | some a1, some a2, some b1, some b2 =>
      let g := BlockRange_Gap ⟨a1, a2⟩ ⟨b1, b2⟩
      ((), s!"gap {g.FromBlock} {g.ToBlock} empty={boolStr (BlockRange_IsEmpty g)} count={BlockRange_CountBlocks g}")
    | _, _, _, _ => ((), "bad-op")
  | ["count", a1, a2] =>
    match a1.toNat?, a2.toNat? with
    | some a1, some a2 => ((), s!"count {BlockRange_CountBlocks ⟨a1, a2⟩} empty={boolStr (BlockRange_IsEmpty ⟨a1, a2⟩)}")
    | _, _ => ((), "bad-op")
  | ["allowed", m, t] =>
    match m.toNat?, t.toNat? with
    | some m, some t => ((), s!"allowed {boolStr (MaxL2BlockNumberLimiter_IsAllowedBlockNumber { maxL2BlockNumber := m } t)}")
    | _, _ => ((), "bad-op")
  | ["range", f, t, fep, retry, from_, to_, b, c] =>
    match f.toNat?, t.toNat?, parseParams fep retry from_ to_ b c with
    | some f, some t, some p => match range p f t with
      | some q => ((), showP "range" q)
      | none => ((), "range err")
    | _, _, _ => ((), "bad-op")
  | ["limit", mx, fep, retry, from_, to_, b, c] =>
    match mx.toNat?, parseParams fep retry from_ to_ b c with
    | some mx, some p => match limitCertSize sizeFloat mx p with
      | some q => ((), showP "limit" q)
      | none => ((), "limit err")
    | _, _ => ((), "bad-op")
  | ["adapt", m, allow, req, fep, retry, from_, to_, b, c] =>
    match m.toNat?, parseBool allow, parseBool req, parseParams fep retry from_ to_ b c with
    | some m, some allow, some req, some p => match adapt m allow req p with
      | .ok q => ((), showP "adapt" q)
      | .error .retryExceeded => ((), "adapt err retry")
      | .error .complete => ((), "adapt err complete")
      | .error .claimsOnly => ((), "adapt err other")
      | .error .rangeErr => ((), "adapt err other")
    | _, _, _, _ => ((), "bad-op")
  | _ => ((), "bad-op")

end Driver.RangeArith
