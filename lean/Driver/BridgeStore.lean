import Driver.Tree
import AggkitModel.Model.BridgeStore
namespace Driver.BridgeStore
open Aggkit Aggkit.BridgeStore Driver.Tree

def kec (bs : Bytes) : Bytes := Driver.keccakBytes bs

def hexOrDash (s : String) : Option Bytes := fromHex s

/-- event token → event; fields separated by ';' -/
def parseEv (tok : String) : Option (Ev Hash) :=
  match tok.splitOn ";" with
  | ["b", pos, dc, lt, on, oa, dn, da, am, md, ts, tx, fa, cd, nat] => do
    let pos ← pos.toNat?; let dc ← dc.toNat?; let lt' ← lt.toNat?; let on' ← on.toNat?; let dn' ← dn.toNat?
    let am' ← am.toNat?
    let oab ← fromHex oa; let dab ← fromHex da; let mdb ← hexOrDash md
    let leaf := kec (leafPreimage lt' on' oab dn' dab am' (kec mdb))
    let payload := s!"lt={lt},on={on},oa={oa},dn={dn},da={da},am={am},md={md},dc={dc},ts={ts},tx={tx},fa={fa},cd={cd},nat={nat}"
    pure (.bridge pos dc (bytesToByteArray leaf) s!"{dn}/{fa}" payload)
  | ["c", pos, gi, on, oa, da, am, dn, md, msg, mer, rer, ger, ts, tx, fa] => do
    let pos ← pos.toNat?
    pure (.claim pos s!"{on}/{fa}" s!"gi={gi},on={on},oa={oa},da={da},am={am},dn={dn},md={md},msg={msg},mer={mer},rer={rer},ger={ger},ts={ts},tx={tx},fa={fa}")
  | ["t", pos, on, ota, wta, md, nm, ty, ts, tx, cd] => do
    let pos ← pos.toNat?
    pure (.tokenMapping pos s!"on={on},ota={ota},wta={wta},md={md},nm={nm},ty={ty},ts={ts},tx={tx},cd={cd}")
  | ["l", pos, sender, la, ua, am, ts, tx, cd] => do
    let pos ← pos.toNat?
    pure (.legacy pos la s!"se={sender},la={la},ua={ua},am={am},ts={ts},tx={tx},cd={cd}")
  | ["r", pos, la] => do
    let pos ← pos.toNat?
    pure (.rmLegacy pos la)
  | _ => none

def resStr : Res → String
  | .ok => "ok" | .inconsistent => "err inconsistent" | .constraint => "err constraint" | .fault => "err fault" | .other => "err other"

def digest (rows : List Row) : String :=
  let body := "\n".intercalate (rows.map (fun r => s!"{r.blockNum}/{r.pos}:{r.payload}"))
  s!"n={rows.length} d={toHex ((kec (body.toUTF8.toList.map (·.toNat))).take 8)}"

def rowsDesc (l : List Row) : List Row := (sortRows l).reverse

def paged (all : List Row) (page size : Nat) : String :=
  -- total == 0 is answered before the offset check
  if all.isEmpty then "n=0 total=0" else
  match calcOffset page size all.length with
  | none => "err invalidpage"
  | some off => s!"{digest ((all.drop off).take size)} total={all.length}"

def step (s : BP Hash) (ws : List String) : BP Hash × String :=
  let guard (k : BP Hash → String) : String := if s.halted then "err inconsistent" else k s
  match ws with
  | ["new"] => (BP.init H N, "ok")
  | "blk" :: num :: fault :: evs =>
    match num.toNat?, evs.mapM parseEv with
    | some num, some evs =>
      let f := if fault = "-" then none else fault.toNat?
      let (s', r) := processBlock H N s { num := num, events := evs } f
      (s', resStr r)
    | _, _ => (s, "bad-op")
  | ["reorg", b] => match b.toNat? with
    | some b => (reorg H N s b, "ok")
    | none => (s, "bad-op")
  | ["reorgF", b, wh] => match b.toNat? with
    | some b => let (s', r) := reorgFault H N s b (wh = "block"); (s', resStr r)
    | none => (s, "bad-op")
  | ["restart"] => (restart H N s, "ok")
  | ["q", "halted"] => (s, boolStr s.halted)
  | ["q", "lpb"] => (s, guard fun s => s!"lpb {lastProcessedBlock s}")
  | ["q", "bridges", f, t] => match f.toNat?, t.toNat? with
    | some f, some t => (s, guard fun s => match rangeQuery s .bridge f t with
      | some rows => digest rows
      | none => "err notprocessed")
    | _, _ => (s, "bad-op")
  | ["q", "claims", f, t] => match f.toNat?, t.toNat? with
    | some f, some t => (s, guard fun s => match rangeQuery s .claim f t with
      | some rows => digest rows
      | none => "err notprocessed")
    | _, _ => (s, "bad-op")
  | ["q", "bridgespaged", page, size] => match page.toNat?, size.toNat? with
    | some page, some size =>
      -- ORDER BY deposit_count DESC
      let all := (s.rows.filter (fun r => r.kind = .bridge))
      let sorted := (all.foldl (fun acc r => (acc.takeWhile (fun x => x.depositCount > r.depositCount)) ++ [r] ++ (acc.dropWhile (fun x => x.depositCount > r.depositCount))) [])
      (s, guard fun _ => paged' sorted page size)
    | _, _ => (s, "bad-op")
  | ["q", "claimspaged", page, size] => match page.toNat?, size.toNat? with
    | some page, some size => (s, guard fun s => paged' (rowsDesc (s.rows.filter (fun r => r.kind = .claim))) page size)
    | _, _ => (s, "bad-op")
  | ["q", "tms", page, size] => match page.toNat?, size.toNat? with
    | some page, some size => (s, guard fun s =>
        if page = 0 then "err badpage" else if size = 0 then "err badsize" else
        paged' (rowsDesc (s.rows.filter (fun r => r.kind = .tokenMapping))) page size)
    | _, _ => (s, "bad-op")
  | ["q", "legacy", page, size] => match page.toNat?, size.toNat? with
    | some page, some size => (s, guard fun s =>
        if page = 0 then "err badpage" else if size = 0 then "err badsize" else
        paged' (rowsDesc (s.rows.filter (fun r => r.kind = .legacy))) page size)
    | _, _ => (s, "bad-op")
  | ["q", "exitroot", i] => match i.toNat? with
    | some i => (s, guard fun s => match getRootByIndex s.tm.db i with
      | some r => rootStr r
      | none => "notfound")
    | none => (s, "bad-op")
  | ["q", "rootbyler", h] => match hashOf h with
    | some h => (s, guard fun s => match getRootByHash s.tm.db h with
      | some r => rootStr r
      | none => "notfound")
    | none => (s, "bad-op")
  | ["q", "verify", i, r, _] => match i.toNat?, hashOf r with
    | some i, some r => (s, guard fun s =>
      match getLeaf N s.tm.db i r with
      | .error _ => "verify err"
      | .ok l => s!"verify {hexOf l} {hexOf (calcRoot H l (getProof H N s.tm.db i r) i)}")
    | _, _ => (s, "bad-op")
  | _ => (s, "bad-op")
where
  paged' (all : List Row) (page size : Nat) : String := paged all page size

end Driver.BridgeStore
