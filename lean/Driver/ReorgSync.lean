import Driver.Common
import AggkitModel.Model.ReorgSync
namespace Driver.ReorgSync
open Aggkit.ReorgSync

structure W where
  s : Sys := {}
  created : List Nat := []   -- how often block i+1 has been created so far
  names : List Nat := [0]    -- names[g] = the per-number version of the block whose (globally fresh) model version is g

def blkStr (names : List Nat) (b : Blk) : String := s!"{b.1}.{names.getD b.2 0}"
def lst (names : List Nat) (l : List Blk) : String := if l.isEmpty then "-" else ",".intercalate (l.map (blkStr names))

def outStr : DetectOut → String
  | .none => "-"
  | .rewind n => toString n
  | .err => "-"

def subStr (names : List Nat) (id : String) (s : Sub) : String := s!"store{id}={lst names s.store} tracked{id}={lst names s.tracked}"

def detectOut (w : W) : W × String :=
  let ra := detectSub w.s.chain w.s.fin w.s.a
  let rb := detectSub w.s.chain w.s.fin w.s.b
  let err := ra.2 == .err || rb.2 == .err
  let s := { w.s with a := ra.1, b := rb.1 }
  ({ w with s := s }, "detect" ++ (if err then " err" else "") ++ s!" A:{outStr ra.2} {subStr w.names "A" ra.1} B:{outStr rb.2} {subStr w.names "B" rb.1}")

def step (w : W) (ws : List String) : W × String :=
  match ws with
  | ["new"] => ({}, "ok")
  | ["race"] => (w, "race done")     -- directed schedule for known finding F5 (monitor only)
  | ["crashtrack"] => (w, "crashtrack done")   -- directed schedule: stopped between tracking and storing a block (monitor only)
  | ["blk", e] =>
    let n := w.s.chain.length            -- index of the new block
    let c := (w.created.getD n 0) + 1
    let created := if n < w.created.length then w.created.set n c else w.created ++ [c]
    if e = "q" then                      -- a block without events: never delivered (version 0)
      ({ w with s := Aggkit.ReorgSync.step w.s (.blk 0), created := created }, "ok")
    else
      let g := w.names.length            -- fresh version
      ({ s := Aggkit.ReorgSync.step w.s (.blk g), created := created, names := w.names ++ [c] }, "ok")
  | ["reorg", k] => match k.toNat? with
    | some k => ({ w with s := Aggkit.ReorgSync.step w.s (.reorg k) }, "ok")
    | none => (w, "bad-op")
  | ["fin", f] => match f.toNat? with
    | some f => ({ w with s := Aggkit.ReorgSync.step w.s (.fin f) }, "ok")
    | none => (w, "bad-op")
  | ["step", id, n] => match n.toNat? with
    | some n =>
      if id = "A" then
        let s := Aggkit.ReorgSync.step w.s (.stepA n)
        ({ w with s := s }, s!"store={lst w.names s.a.store} tracked={lst w.names s.a.tracked}")
      else
        let s := Aggkit.ReorgSync.step w.s (.stepB n)
        ({ w with s := s }, s!"store={lst w.names s.b.store} tracked={lst w.names s.b.tracked}")
    | none => (w, "bad-op")
  -- `step!`: the first attempt(s) at the next block meet a transient storage error; `handleNewBlock` retries until the block
  -- is stored, so the outcome is that of `step`
  | ["step!", id, n] => match n.toNat? with
    | some n =>
      if id = "A" then
        let s := Aggkit.ReorgSync.step w.s (.stepA n)
        ({ w with s := s }, s!"store={lst w.names s.a.store} tracked={lst w.names s.a.tracked}")
      else
        let s := Aggkit.ReorgSync.step w.s (.stepB n)
        ({ w with s := s }, s!"store={lst w.names s.b.store} tracked={lst w.names s.b.tracked}")
    | none => (w, "bad-op")
  | ["detect"] => detectOut w
  | ["detect!"] =>
    let s := Aggkit.ReorgSync.step w.s .detectCrash
    ({ w with s := s }, s!"crashed {subStr w.names "A" s.a} {subStr w.names "B" s.b} dbA={lst w.names s.a.db} dbB={lst w.names s.b.db}")
  -- a restart rebuilds the in-memory tracked lists from table `tracked_block`; the rows are shown as well
  | ["restart"] =>
    let s := Aggkit.ReorgSync.step w.s .restart
    ({ w with s := s }, s!"up {subStr w.names "A" s.a} {subStr w.names "B" s.b} dbA={lst w.names s.a.db} dbB={lst w.names s.b.db}")
  -- restart with the first read(s) of the last-processed marker failing: the driver retries the read (Sync's loop)
  | ["restart!"] =>
    let s := Aggkit.ReorgSync.step w.s .restart
    ({ w with s := s }, s!"up {subStr w.names "A" s.a} {subStr w.names "B" s.b} dbA={lst w.names s.a.db} dbB={lst w.names s.b.db}")
  | ["end"] =>
    let round (s : Sys) : Sys :=
      let s := Aggkit.ReorgSync.step s .detect
      let s := Aggkit.ReorgSync.step s (.stepA (s.chain.length + 1))
      Aggkit.ReorgSync.step s (.stepB (s.chain.length + 1))
    let s := round (round (round (round w.s)))
    ({ w with s := s }, s!"end storeA={lst w.names s.a.store} storeB={lst w.names s.b.store}")
  | _ => (w, "bad-op")

end Driver.ReorgSync
