import Driver.Common
import AggkitModel.Model.ClaimTrace
namespace Driver.ClaimTrace
open Aggkit.ClaimTrace

/-
tree syntax:  F<err>,<toBridge>,<sender>,<kind>,<gi>,<id>{ children }
kind: a|m (etrog claimAsset / claimMessage), A|M (pre-etrog), x (unknown selector), s (short input)
-/
def takeNat (cs : List Char) : Nat × List Char :=
  let ds := cs.takeWhile Char.isDigit
  (ds.foldl (fun a c => a * 10 + (c.toNat - 48)) 0, cs.dropWhile Char.isDigit)

mutual
partial def parseFrame (cs : List Char) : Option (Frame × List Char) :=
  match cs with
  | 'F' :: r0 =>
    let (e, r1) := takeNat r0
    match r1 with
    | ',' :: r1 =>
      let (b, r2) := takeNat r1
      match r2 with
      | ',' :: r2 =>
        let (s, r3) := takeNat r2
        match r3 with
        | ',' :: k :: ',' :: r4 =>
          let (gi, r5) := takeNat r4
          match r5 with
          | ',' :: r5 =>
            let (id, r6) := takeNat r5
            match r6 with
            | '{' :: r7 =>
              match parseFrames r7 with
              | some (kids, '}' :: r8) =>
                let p : Payload := match k with
                  | 'a' | 'A' => .claim gi id false
                  | 'm' | 'M' => .claim gi id true
                  | 's' => .short
                  | _ => .unknown
                some (.mk (e == 1) (b == 1) s p kids, r8)
              | _ => none
            | _ => none
          | _ => none
        | _ => none
      | _ => none
    | _ => none
  | _ => none
partial def parseFrames (cs : List Char) : Option (List Frame × List Char) :=
  match cs with
  | 'F' :: _ =>
    match parseFrame cs with
    | some (f, r) => match parseFrames r with
      | some (fs, r') => some (f :: fs, r')
      | none => none
    | none => none
  | _ => some ([], cs)
end

def step (_ : Unit) (ws : List String) : Unit × String :=
  match ws with
  | ["trace", gi, t] =>
    match gi.toNat?, parseFrame t.toList with
    | some gi, some (f, []) =>
      match setClaimCalldata gi f with
      | .ok id s m => ((), s!"ok id={id} from={s} msg={boolStr m}")
      | .notFound => ((), "err notfound")
      | .decodeErr => ((), "err decode")
      | .rootReverted => ((), "err rootreverted")
    | _, _ => ((), "bad-op")
  | _ => ((), "bad-op")

end Driver.ClaimTrace
