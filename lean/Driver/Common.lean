import AggkitModel.Model.Bytes
import AggkitModel.Model.Keccak
/- line-protocol plumbing shared by all driver scenarios (core Lean only) -/
namespace Driver
open Aggkit

def words (line : String) : List String :=
  (line.splitOn " ").filter (· ≠ "")

def stripNL (s : String) : String :=
  let s := if s.endsWith "\n" then (s.dropEnd 1).toString else s
  if s.endsWith "\r" then (s.dropEnd 1).toString else s

partial def loop {σ : Type} (inp : IO.FS.Stream) (step : σ → List String → σ × String) (s : σ) : IO Unit := do
  let line ← inp.getLine
  if line.isEmpty then return ()
  let ws := words (stripNL line)
  match ws with
  | [] => loop inp step s
  | "#" :: _ => loop inp step s
  | _ =>
    let (s', out) := step s ws
    IO.println out
    loop inp step s'

def keccakBytes (bs : Bytes) : Bytes :=
  byteArrayToBytes (Keccak.keccak256 (bytesToByteArray bs))

def boolStr (b : Bool) : String := if b then "1" else "0"
def parseBool (s : String) : Option Bool := if s = "1" then some true else if s = "0" then some false else none

end Driver
