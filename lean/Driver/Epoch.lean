import Driver.Common
import AggkitModel.Model.Epoch
namespace Driver.Epoch
open Aggkit.Epoch

structure S where
  cfg : Cfg := ⟨0, 1, 0⟩
  st : St := ⟨0, 1⟩
  ok : Bool := false

def step (s : S) (ws : List String) : S × String :=
  match ws with
  | ["cfg", a, b, c] =>
    match a.toNat?, b.toNat?, c.toNat? with
    | some a, some b, some c =>
      let cfg : Cfg := ⟨a, b, c⟩
      if valid cfg then ({ cfg := cfg, st := init cfg, ok := true }, "ok") else ({ s with ok := false }, "invalid")
    | _, _, _ => (s, "bad-op")
  | ["blk", b] =>
    match (if s.ok then b.toNat? else none) with
    | some b =>
      match Aggkit.Epoch.step s.cfg s.st b with
      | (st', some (e, pend)) => ({ s with st := st' }, s!"notify {e} pending={pend}")
      | (st', none) => ({ s with st := st' }, "none")
    | none => (s, "bad-op")
  | _ => (s, "bad-op")

end Driver.Epoch
