import Driver.Tree
import AggkitModel.Model.L1InfoStore
namespace Driver.L1InfoStore
open Aggkit Aggkit.L1InfoStore Driver.Tree

def kecB (bs : Bytes) : Hash := bytesToByteArray (Driver.keccakBytes bs)
def bytesOf (h : Hash) : Bytes := byteArrayToBytes h

def parseEv (tok : String) : Option (Ev Hash) :=
  match tok.splitOn ";" with
  | ["i", pos, mer, rer, ph, ts] => do
    let pos ← pos.toNat?; let ts' ← ts.toNat?
    let merB ← fromHex mer; let rerB ← fromHex rer; let phB ← fromHex ph
    let ger := kecB (merB ++ rerB)
    let hash := kecB (leafPreimage (bytesOf ger) phB ts')
    pure (.info pos ger (bytesToByteArray rerB) hash s!"ph={ph},ts={ts},mer={mer}")
  | ["v", root, count] => do
    let r ← hashOf root; let c ← count.toNat?
    pure (.v2 r c)
  | ["vb", pos, rid, batch, sr, er, agg] => do
    let pos ← pos.toNat?; let rid' ← rid.toNat?
    let erH ← hashOf er
    pure (.verify pos rid' erH (erH == keccakAlg.zero) s!"batch={batch},sr={sr},agg={agg}")
  | ["in", count, root] => do
    let c ← count.toNat?; let r ← hashOf root
    pure (.init c r)
  | _ => none

def resStr : Res → String
  | .ok => "ok" | .inconsistent => "err inconsistent" | .constraint => "err constraint" | .fault => "err fault" | .other => "err other"

def leafStr (r : LeafRow Hash) : String :=
  s!"leaf {r.blockNum}/{r.pos} idx={r.index} ger={hexOf r.ger} rer={hexOf r.rer} hash={hexOf r.hash} {r.payload}"

def vbStr (r : VBRow Hash) : String :=
  s!"vb {r.blockNum}/{r.pos} rid={r.rollupID} er={hexOf r.exitRoot} rer={hexOf r.rollupExitRoot} {r.payload}"

def before (r x : LeafRow Hash) : Bool := r.blockNum < x.blockNum || (r.blockNum == x.blockNum && r.pos < x.pos)

/-- first / last row by (block_num, block_pos) among those satisfying `p` -/
def firstLeaf (ls : List (LeafRow Hash)) (p : LeafRow Hash → Bool) : Option (LeafRow Hash) :=
  (ls.filter p).foldl (fun best r => match best with
    | none => some r
    | some b => if before r b then some r else some b) none
def lastLeafP (ls : List (LeafRow Hash)) (p : LeafRow Hash → Bool) : Option (LeafRow Hash) := lastLeaf (ls.filter p)

def vbBefore (r x : VBRow Hash) : Bool := r.blockNum < x.blockNum || (r.blockNum == x.blockNum && r.pos < x.pos)
def firstVB (l : List (VBRow Hash)) (p : VBRow Hash → Bool) : Option (VBRow Hash) :=
  (l.filter p).foldl (fun best r => match best with
    | none => some r
    | some b => if vbBefore r b then some r else some b) none
def lastVB (l : List (VBRow Hash)) (p : VBRow Hash → Bool) : Option (VBRow Hash) :=
  (l.filter p).foldl (fun best r => match best with
    | none => some r
    | some b => if vbBefore b r then some r else some b) none

def optLeaf : Option (LeafRow Hash) → String
  | some r => leafStr r | none => "notfound"
def optVB : Option (VBRow Hash) → String
  | some r => vbStr r | none => "notfound"
def optRoot : Option (RootRow Hash) → String
  | some r => rootStr r | none => "notfound"

def step (s : LP Hash) (ws : List String) : LP Hash × String :=
  let guard (k : LP Hash → String) : String := if s.halted then "err inconsistent" else k s
  match ws with
  | ["new"] => (LP.init H N, "ok")
  | "blk" :: num :: evs =>
    match num.toNat?, evs.mapM parseEv with
    | some num, some evs =>
      let (s', r) := processBlock H N s { num := num, events := evs }
      (s', resStr r)
    | _, _ => (s, "bad-op")
  -- an attempt at this block in which some storage statement failed: the transaction is rolled back, nothing is recorded
  -- (`processBlockF`); the harness reports the attempt under this name only when the injected fault actually fired
  | "blkF" :: num :: evs =>
    match num.toNat?, evs.mapM parseEv with
    | some num, some evs =>
      let (s', r) := processBlockF H N s { num := num, events := evs }
      (s', resStr r)
    | _, _ => (s, "bad-op")
  | ["reorg", b] => match b.toNat? with
    | some b => (reorg s b, "ok")
    | none => (s, "bad-op")
  | ["reorgF", b, tbl] => match b.toNat? with
    | some b =>
      let r := reorgFault s b (if tbl = "block" then 0 else if tbl = "inforoot" then 1 else 2)
      (r.1, if r.2 then "err fault" else "ok")
    | none => (s, "bad-op")
  | ["restart"] => (restart H N s, "ok")
  | ["q", "halted"] => (s, boolStr s.halted)
  | ["q", "lpb"] => (s, guard fun s => s!"lpb {lastProcessedBlock s}")
  | ["q", "lastinfo"] => (s, guard fun s => optLeaf (lastLeaf s.tb.leaves))
  | ["q", "firstinfo"] => (s, guard fun s => optLeaf (firstLeaf s.tb.leaves (fun _ => true)))
  | ["q", "infobyidx", i] => match i.toNat? with
    | some i => (s, guard fun s => optLeaf (s.tb.leaves.find? (fun r => r.index == i)))
    | none => (s, "bad-op")
  | ["q", "infobyger", g] => match hashOf g with
    | some g => (s, guard fun s => optLeaf (s.tb.leaves.find? (fun r => r.ger == g)))
    | none => (s, "bad-op")
  | ["q", "latestuntil", b] => match b.toNat? with
    | some b => (s, guard fun s =>
        if b = 0 then "err noblock0" else if lastProcessedBlock s < b then "err notprocessed"
        else optLeaf (lastLeafP s.tb.leaves (fun r => r.blockNum ≤ b)))
    | none => (s, "bad-op")
  | ["q", "firstafter", b] => match b.toNat? with
    | some b => (s, guard fun s => optLeaf (firstLeaf s.tb.leaves (fun r => r.blockNum ≥ b)))
    | none => (s, "bad-op")
  | ["q", "firstwithrer", r] => match hashOf r with
    | some r => (s, guard fun s => optLeaf (firstLeaf s.tb.leaves (fun x => x.rer == r)))
    | none => (s, "bad-op")
  | ["q", "inforoot", i] => match i.toNat? with
    | some i => (s, guard fun s => optRoot (getRootByIndex s.tb.info i))
    | none => (s, "bad-op")
  | ["q", "lastinforoot"] => (s, guard fun s => optRoot (getLastRoot s.tb.info))
  | ["q", "lastrer"] => (s, guard fun s => optRoot (getLastRoot s.tb.rollup))
  | ["q", "lastvb", rid] => match rid.toNat? with
    | some rid => (s, guard fun s => optVB (lastVB s.tb.vbs (fun r => r.rollupID == rid)))
    | none => (s, "bad-op")
  | ["q", "firstvb", rid] => match rid.toNat? with
    | some rid => (s, guard fun s => optVB (firstVB s.tb.vbs (fun r => r.rollupID == rid)))
    | none => (s, "bad-op")
  | ["q", "firstvbafter", rid, b] => match rid.toNat?, b.toNat? with
    | some rid, some b => (s, guard fun s => optVB (firstVB s.tb.vbs (fun r => r.rollupID == rid && r.blockNum ≥ b)))
    | _, _ => (s, "bad-op")
  | ["q", "ler", net, root] => match net.toNat?, hashOf root with
    | some net, some root => (s, guard fun s =>
        if net = 0 then "err network0" else
        match getLeaf N s.tb.rollup (net - 1) root with
        | .ok l => s!"ler {hexOf l}"
        | .error _ => "err notfound")
    | _, _ => (s, "bad-op")
  | ["q", "verifyinfo", i] => match i.toNat? with
    -- GetL1InfoTreeMerkleProof(index): root recorded for that index + proof of that index; verified against the leaf row
    | some i => (s, guard fun s => match getRootByIndex s.tb.info i with
      | none => "notfound"
      | some r =>
        let p := getProof H N s.tb.info r.index r.hash
        match s.tb.leaves.find? (fun x => x.index == i) with
        | none => "noleaf"
        | some lf => s!"verifyinfo {hexOf r.hash} {hexOf (calcRoot H lf.hash p i)}")
    | none => (s, "bad-op")
  | ["q", "verifyinfoat", i, root] => match i.toNat?, hashOf root with
    -- GetL1InfoTreeMerkleProofFromIndexToRoot(index, root)
    | some i, some root => (s, guard fun s =>
        match s.tb.leaves.find? (fun x => x.index == i) with
        | none => "noleaf"
        | some lf => s!"verifyinfoat {hexOf (calcRoot H lf.hash (getProof H N s.tb.info i root) i)}")
    | _, _ => (s, "bad-op")
  | ["q", "verifyrollup", net, root, leaf] => match net.toNat?, hashOf root, hashOf leaf with
    | some net, some root, some leaf => (s, guard fun s =>
        if net = 0 then "emptyproof" else
        s!"verifyrollup {hexOf (calcRoot H leaf (getProof H N s.tb.rollup (net - 1) root) (net - 1))}")
    | _, _, _ => (s, "bad-op")
  | ["q", "init"] => (s, guard fun s => match s.tb.initial with
    | some (bn, c, r) => s!"init {bn} {c} {hexOf r}"
    | none => "init none")
  | _ => (s, "bad-op")

end Driver.L1InfoStore
