import Driver.Common
import AggkitModel.Model.Certificate
import AggkitModel.Model.GlobalIndex
namespace Driver.GlobalIndex
open Aggkit Aggkit.GlobalIndex

/-- the bridge exit of the all-zero claim the harness passes to the optimistic commitment -/
def zeroExit : Aggkit.Certificate.Exit :=
  { leafType := 0, origNet := 0, origAddr := List.replicate 20 0, destNet := 0, destAddr := List.replicate 20 0, amount := 0, metadata := [] }

def step (_ : Unit) (ws : List String) : Unit × String :=
  match ws with
  | ["enc", m, r, l] =>
    match parseBool m, r.toNat?, l.toNat? with
    | some m, some r, some l =>
      ((), s!"enc {generate m r l} {toHex (beBytes (generate m r l))}")
    | _, _, _ => ((), "bad-op")
  | ["dec", x] =>
    match x.toNat? with
    | some x =>
      match decode x with
      | some (m, r, l) => ((), s!"dec {boolStr m} {r} {l}")
      | none => ((), "dec panic")
    | none => ((), "bad-op")
  | ["cons", x] =>
    match x.toNat? with
    | some x =>
      match consumers x with
      | some c =>
        let (m, r, l) := c.certField
        ((), s!"cons {boolStr m} {r} {l} hash={toHex (Driver.keccakBytes c.hashInput)} fep={toHex c.fepChunk} wire={toHex c.wire} prover={toHex c.prover} opt={toHex (Driver.keccakBytes (c.optInput ++ Aggkit.Certificate.exitHash Driver.keccakBytes zeroExit))}")
      | none => ((), "cons panic")
    | none => ((), "bad-op")
  | _ => ((), "bad-op")

end Driver.GlobalIndex
