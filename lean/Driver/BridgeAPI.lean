import Driver.Common
import AggkitModel.Model.BridgeAPI
namespace Driver.BridgeAPI
open Aggkit.BridgeAPI

structure W where
  infos : List Info := []
  vs : List Verify := []
  l1n : Nat := 0
  lcount : Nat := 0
  rer : List Nat := [0, 0, 0, 0, 0]       -- content of the rollup exit tree (per rollup an identity of its exit root)
  seen : List (List Nat) := []             -- distinct rollup exit tree contents, in order of first appearance
  injected : List Nat := []                -- L1 info leaf indexes whose global exit root was injected on the L2

def rerIdOf (w : W) : W × Nat :=
  match w.seen.idxOf? w.rer with
  | some k => (w, k)
  | none => ({ w with seen := w.seen ++ [w.rer] }, w.seen.length)

def net : Nat := 3

def tok (bn : Nat) (w : W) (t : String) : Option W :=
  match t.splitOn ":" with
  | ["b", _] => some { w with l1n := w.l1n + 1 }
  | ["i", mc] => mc.toNat?.map (fun mc =>
      let (w, rid) := rerIdOf w
      { w with infos := w.infos ++ [{ index := w.infos.length, block := bn, mcount := mc, rerId := rid, lcount := w.lcount }] })
  -- `i:0:z`: the mainnet exit root is still bytes32(0) (no mainnet deposit yet) — no stored root either way
  | ["i", mc, _] => mc.toNat?.map (fun mc =>
      let (w, rid) := rerIdOf w
      { w with infos := w.infos ++ [{ index := w.infos.length, block := bn, mcount := mc, rerId := rid, lcount := w.lcount }] })
  | ["v", rid, x] =>
    match rid.toNat?, x.toNat? with
    | some rid, some x =>
      if rid = net ∧ x = w.lcount then some w     -- the same exit root verified again: `processVerifyBatches` records nothing
      else if rid = net then
        let w := { w with lcount := x, rer := w.rer.set (rid - 1) (x + 1) }
        let (w, k) := rerIdOf w
        some { w with vs := w.vs ++ [{ block := bn, lcount := x, rerId := k }] }
      else some { w with rer := w.rer.set (rid - 1) (x + 1000000 * (bn + 1)) }
    | _, _ => none
  | _ => none

def resStr : Res → String
  | .ok i => s!"idx {i}"
  | .err => "err 500"

def step (w : W) (ws : List String) : W × String :=
  match ws with
  | ["new"] => ({}, "ok")
  | "l1blk" :: bn :: toks =>
    match bn.toNat? with
    | some bn => match toks.foldlM (tok bn) w with
      | some w => (w, "ok")
      | none => (w, "bad-op")
    | none => (w, "bad-op")
  -- the first attempt at the block fails at the last bridge row and is rolled back; the retry is the block
  | "l1blk!" :: bn :: toks =>
    match bn.toNat? with
    | some bn => match toks.foldlM (tok bn) w with
      | some w => (w, "ok")
      | none => (w, "bad-op")
    | none => (w, "bad-op")
  | "l2blk" :: _ => (w, "ok")
  | ["inj", _, idx] => match idx.toNat? with
    | some i => if i < w.infos.length then ({ w with injected := w.injected ++ [i] }, "ok") else (w, "bad-op")
    | none => (w, "bad-op")
  -- `/injected-l1-info-leaf`: mainnet = the leaf itself; this L2 = the first injected leaf at or after the index
  | ["q", "inj", n, idx] =>
    match n.toNat?, idx.toNat? with
    | some 0, some i => (w, if i < w.infos.length then s!"leaf {i}" else "err 500")
    | some _, some i =>
      (w, match firstInjectedAfter w.injected i with
        | some k => s!"leaf {k}"
        | none => "err 500")
    | _, _ => (w, "bad-op")
  | ["q", "idx", n, dc] =>
    match n.toNat?, dc.toNat? with
    | some 0, some dc => (w, resStr (searchL1 w.infos dc))
    | some _, some dc => (w, resStr (searchL2 w.vs w.infos dc))
    | _, _ => (w, "bad-op")
  -- the exit tree's nodes cannot be read while the request is served: no proof can be computed
  | ["q", "proof!", _, _, _] => (w, "err 500")
  | ["q", "proof", _, leaf, _] =>
    match leaf.toNat? with
    | some k => (w, if k < w.infos.length then s!"proof leaf={k}" else "err 500")
    | none => (w, "bad-op")
  | _ => (w, "bad-op")

end Driver.BridgeAPI
