import Driver.Common
import Driver.Tree
import AggkitModel.Model.Contract
import AggkitModel.Model.Certificate
/-
Scenario `evmbridge`: the REAL bridge contract (PolygonZkEVMBridgeV2 bytecode in go-ethereum's simulated EVM) takes
deposits; after each one the harness reads `getRoot()` and `getLeafValue(…)` from the contract, feeds the emitted log
through the syncer's own log handler into the real processor and asks the node for the exit root of that deposit count.
The model answers the same op from the Lean deposit-contract model (Model/Contract.lean) and the Lean leaf hash
(Model/Certificate.lean) over the Lean Keccak — three parties, one answer.
-/
namespace Driver.EvmBridge
open Aggkit Aggkit.Certificate

structure W where
  dc : DC Driver.Tree.Hash := DC.empty Driver.Tree.H 32

def step (w : W) (ws : List String) : W × String :=
  match ws with
  | ["new"] => ({}, "ok")
  | ["dep", lt, on, oa, dn, da, am, md] =>
    match lt.toNat?, on.toNat?, fromHexOpt oa, dn.toNat?, fromHexOpt da, am.toNat?, fromHexOpt md with
    | some lt, some on, some oa, some dn, some da, some am, some md =>
      let ev : BridgeEv := { leafType := lt, origNet := on, origAddr := oa, destNet := dn, destAddr := da, amount := am, metadata := md }
      let leaf := leafHash Driver.keccakBytes ev
      let dc := DC.deposit Driver.Tree.H 32 w.dc (bytesToByteArray leaf)
      ({ dc := dc }, s!"leaf={toHex leaf} root={Driver.Tree.hexOf (DC.getRoot Driver.Tree.H 32 dc)} count={dc.count}")
    | _, _, _, _, _, _, _ => (w, "bad-op")
  | _ => (w, "bad-op")
where
  fromHexOpt (s : String) : Option Bytes := if s = "-" then some [] else fromHex s

end Driver.EvmBridge
