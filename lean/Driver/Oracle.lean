import Driver.Common
import AggkitModel.Model.Oracle
namespace Driver.Oracle
open Aggkit.Oracle

structure W where
  target : Nat := 0
  leaves : List Leaf := []
  lpb : Nat := 0
  blocks : List Nat := []    -- numbers of the blocks the syncer holds

def parseNats (s : String) : Option (List Nat) :=
  if s = "-" then some [] else (s.splitOn ",").mapM (·.toNat?)

def outStr : Out → String
  | .injected g t => s!"injected {g} {t}"
  | .already g => s!"already {g}"
  | .notReady t => s!"notready {t}"
  | .noGER => "noger"
  | .failed => "failed"

def step (w : W) (ws : List String) : W × String :=
  match ws with
  | ["new"] => ({}, "ok")
  | "l1blk" :: num :: gers => match num.toNat?, gers.mapM (·.toNat?) with
    | some num, some gs =>
      ({ w with lpb := num, blocks := w.blocks ++ [num], leaves := w.leaves ++ gs.map (fun g => ⟨num, g⟩) }, "ok")
    | _, _ => (w, "bad-op")
  -- an L1 reorg from block k on (above every finalized block): the syncer drops the blocks k.. and their leaves
  | ["l1reorg", k] => match k.toNat? with
    | some k =>
      let blocks := w.blocks.filter (· < k)
      ({ w with blocks := blocks, lpb := blocks.getLast?.getD 0, leaves := reorgLeaves w.leaves k }, "ok")
    | none => (w, "bad-op")
  | ["tick", fin, finErr, syncErr, isInjErr, injErr, l2] =>
    match fin.toNat?, parseBool finErr, parseBool syncErr, parseBool isInjErr, parseBool injErr, parseNats l2 with
    | some fin, some fe, some se, some ie, some je, some l2 =>
      let (t', o) := tick w.target { fin := fin, finErr := fe, lpb := w.lpb, leaves := w.leaves, syncErr := se, l2 := l2, isInjErr := ie, injErr := je }
      ({ w with target := t' }, outStr o)
    | _, _, _, _, _, _ => (w, "bad-op")
  | _ => (w, "bad-op")

end Driver.Oracle
