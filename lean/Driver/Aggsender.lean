import Driver.Common
import AggkitModel.Model.Aggsender
import AggkitModel.Model.ClaimProof
namespace Driver.Aggsender
open Aggkit.Aggsender Aggkit.CertRange

structure W where
  s : Sys := {}
  nDeposits : Nat := 0
  nClaims : Nat := 0

def stStr : St → String
  | .pending => "P" | .proven => "V" | .candidate => "C" | .inError => "E" | .settled => "S"
def parseSt : String → Option St
  | "P" => some .pending | "V" => some .proven | "C" => some .candidate | "E" => some .inError | "S" => some .settled
  | _ => none

def rowStr (r : Row) : String :=
  let prev := match r.prev with
    | some p => toString p
    | none => "nil"
  s!"{r.height}:{r.id}:{stStr r.status}:{r.from_}:{r.to_}:{r.retry}:{prev}:{r.new}{if r.opt then ":o" else ""}"

def rowsStr (loc : List Row) : String :=
  if loc.isEmpty then "-" else ";".intercalate (loc.map rowStr)

def subStr (c : ACert) : String :=
  s!"sub id={c.id} h={c.height} from={c.from_} to={c.to_} prev={c.prev} new={c.new} nb={c.bridges.length} nc={c.claims.length}"

/-- parse the event tokens of an `l2blk` line: `b:<metalen>:…` / `c:<metalen>:…` -/
def parseEvs (num : Nat) (toks : List String) (nd nc : Nat) : Option (List Ev × List Ev × Nat × Nat) :=
  toks.foldlM (fun (acc : List Ev × List Ev × Nat × Nat) tok =>
    let (bs, cs, nd, nc) := acc
    match tok.splitOn ":" with
    | "b" :: ml :: _ => ml.toNat?.map (fun ml => (bs ++ [{ block := num, metaLen := ml, id := nd }], cs, nd + 1, nc))
    | "c" :: ml :: _ => ml.toNat?.map (fun ml => (bs, cs ++ [{ block := num, metaLen := ml, id := nc }], nd, nc + 1))
    | _ => none) ([], [], nd, nc)

def tickOut (s0 : Sys) (r : Sys × SendOut) (crash : Bool) : String :=
  let (s, o) := r
  let crashed := crash && !s.up
  let head := if crashed then "tick crashed" else "tick"
  let mid := match o with
    | .sent c => " " ++ subStr c
    | .none => if crashed then " nosub" else " nosub noerr"
    | .err => if crashed then " nosub" else " nosub err"
  let _ := s0
  head ++ mid ++ " rows=" ++ rowsStr s.loc

def KH : Aggkit.HashAlg Aggkit.Bytes := { node := fun a b => Driver.keccakBytes (a ++ b), zero := List.replicate 32 0 }

def parseHashes (s : String) : Option (List Aggkit.Bytes) := (s.splitOn ",").mapM Aggkit.fromHex

def mph (p : Aggkit.ClaimProof.MP Aggkit.Bytes) : Aggkit.Bytes := Driver.keccakBytes (p.root ++ p.siblings.flatten)

/-- digest of the packed claim data, same layout as `ClaimData.Hash` -/
def claimDigest (p : Aggkit.ClaimProof.Packed Aggkit.Bytes) (l1LeafHash : Aggkit.Bytes) : Aggkit.Bytes :=
  let mid := match p.lerProof with
    | some q => mph q
    | none => []
  Driver.keccakBytes (mph p.leafProof ++ mid ++ mph p.gerProof ++ l1LeafHash)

def claimData (fs : List String) : String :=
  match fs with
  | [_, _, mainnet, rollup, leaf, exitLeaf, mer, rer, k, ph, ts, root, pl, pr, pg] =>
    match Driver.parseBool mainnet, rollup.toNat?, leaf.toNat?, Aggkit.fromHex exitLeaf, Aggkit.fromHex mer, Aggkit.fromHex rer,
          k.toNat?, Aggkit.fromHex ph, ts.toNat?, Aggkit.fromHex root, parseHashes pl, parseHashes pr, parseHashes pg with
    | some mainnet, some rollup, some leaf, some exitLeaf, some mer, some rer, some k, some ph, some ts, some root,
      some pl, some pr, some pg =>
      let ger := KH.node mer rer
      let c : Aggkit.ClaimProof.ClaimIn Aggkit.Bytes :=
        { mainnet := mainnet, rollup := rollup, leaf := leaf, exitLeaf := exitLeaf, mer := mer, rer := rer, ger := ger,
          proofLocal := pl, proofRollup := pr }
      let p := Aggkit.ClaimProof.pack KH c k ger pg root
      let l1 := Driver.keccakBytes (ger ++ ph ++ Aggkit.fillBE 8 ts)
      s!"claim h={Aggkit.toHex (claimDigest p l1)} idx={p.l1Index} mer={Aggkit.toHex (p.l1Mer.take 4)} rer={Aggkit.toHex (p.l1Rer.take 4)}"
    | _, _, _, _, _, _, _, _, _, _, _, _, _ => "bad-op"
  | _ => "bad-op"

def l2blk (w : W) (num : String) (toks : List String) : W × String :=
  match num.toNat? with
  | some num => match parseEvs num toks w.nDeposits w.nClaims with
    | some (bs, cs, nd, nc) =>
      ({ w with s := Aggkit.Aggsender.step sizeFloat w.s (.l2blk ⟨num, bs, cs⟩), nDeposits := nd, nClaims := nc }, "ok")
    | none => (w, "bad-op")
  | none => (w, "bad-op")

def step (w : W) (ws : List String) : W × String :=
  match ws with
  | "claimdata" :: fs => (w, claimData fs)
  | "new" :: retry :: start :: maxSize :: _hist :: omitPrev :: rest =>
    match Driver.parseBool retry, start.toNat?, maxSize.toNat?, Driver.parseBool omitPrev with
    | some r, some st, some ms, some op =>
      ({ s := { cfg := { retry := r, start := st, maxSize := ms, omitPrev := op, fep := rest = ["1"] } } }, "ok")
    | _, _, _, _ => (w, "bad-op")
  | ["opt", "on"] => ({ w with s := Aggkit.Aggsender.step sizeFloat w.s (.opt true) }, "ok")
  | ["opt", "off"] => ({ w with s := Aggkit.Aggsender.step sizeFloat w.s (.opt false) }, "ok")
  | ["prover", "fail"] => ({ w with s := Aggkit.Aggsender.step sizeFloat w.s (.prover .fail) }, "ok")
  | ["prover", "notyet"] => ({ w with s := Aggkit.Aggsender.step sizeFloat w.s (.prover .notYet) }, "ok")
  | ["prover", "cut", k] => match k.toNat? with
    | some k => ({ w with s := Aggkit.Aggsender.step sizeFloat w.s (.prover (.ok k)) }, "ok")
    | none => (w, "bad-op")
  | ["l1blk", _, _] => (w, "ok")
  | ["fin", _] => (w, "ok")
  | "l2blk!" :: num :: toks => l2blk w num toks     -- the faulted first attempt leaves nothing behind; the retry is the block
  | "l2blk" :: num :: toks => l2blk w num toks
  | ["move", id, st] =>
    match id.toNat?, parseSt st with
    | some id, some st => ({ w with s := Aggkit.Aggsender.step sizeFloat w.s (.move id st) }, "ok")
    | _, _ => (w, "bad-op")
  | ["failhdr"] => ({ w with s := Aggkit.Aggsender.step sizeFloat w.s .failHdr }, "ok")
  | ["failsub"] => ({ w with s := Aggkit.Aggsender.step sizeFloat w.s .failSub }, "ok")
  | "failrec" :: _ => ({ w with s := Aggkit.Aggsender.step sizeFloat w.s .failRec }, "ok")   -- [p|s]: which of the two queries fails
  | ["savefault", _] => (w, "ok")
  | ["crash"] => ({ w with s := Aggkit.Aggsender.step sizeFloat w.s .crash }, "ok")
  | ["losedb"] => ({ w with s := Aggkit.Aggsender.step sizeFloat w.s .losedb }, "ok")
  | ["forge"] =>
    if w.s.up then (w, "running")
    else
      let s := Aggkit.Aggsender.step sizeFloat w.s .forge
      ({ w with s := s }, "ok rows=" ++ rowsStr s.loc)
  | ["restart"] =>
    if w.s.up then (w, "already")
    else
      let (s, ok) := restart w.s
      let s := { s with failRec := false, failHdr := false }
      ({ w with s := s }, (if ok then "up" else "refused") ++ " rows=" ++ rowsStr s.loc)
  | ["end"] => (w, "ok")
  | [t] =>
    let go (epoch crash : Bool) : W × String :=
      if !w.s.up then (w, "down")
      else
        let r := tick sizeFloat w.s epoch crash
        ({ w with s := r.1 }, tickOut w.s r crash)
    match t with
    | "epoch?" =>
      if !w.s.up then (w, "down")
      else
        let r := tickUnreadable w.s
        ({ w with s := r.1 }, tickOut w.s r false)
    | "epoch~" =>
      if !w.s.up then (w, "down")
      else if w.s.cfg.fep then (w, "n/a")
      else
        let r := tickL1Unreadable sizeFloat w.s
        ({ w with s := r.1 }, tickOut w.s r false)
    | "epoch" => go true false
    | "epoch!" => go true true
    | "status" => go false false
    | "status!" => go false true
    | _ => (w, "bad-op")
  | _ => (w, "bad-op")

end Driver.Aggsender
