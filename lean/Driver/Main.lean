import Driver.Common
import Driver.GlobalIndex
import Driver.Epoch
import Driver.Tree
import Driver.RangeArith
import Driver.ClaimTrace
import Driver.BridgeStore
import Driver.L1InfoStore
import Driver.Downloader
import Driver.LastGER
import Driver.EvmBridge
import Driver.Oracle
import Driver.Aggsender
import Driver.CertCodec
import Driver.BridgeAPI
import Driver.ReorgSync
open Driver Aggkit

def keccakStep (_ : Unit) (ws : List String) : Unit × String :=
  match ws with
  | ["h", x] => match fromHex x with
    | some bs => ((), toHex (keccakBytes bs))
    | none => ((), "bad-op")
  | _ => ((), "bad-op")

def main (args : List String) : IO UInt32 := do
  let inp ← IO.getStdin
  match args with
  | ["keccak"] => loop inp keccakStep (); return 0
  | ["globalindex"] => loop inp Driver.GlobalIndex.step (); return 0
  | ["epoch"] => loop inp Driver.Epoch.step {}; return 0
  | ["rangearith"] => loop inp Driver.RangeArith.step (); return 0
  | ["claimtrace"] => loop inp Driver.ClaimTrace.step (); return 0
  | ["bridgestore"] => loop inp Driver.BridgeStore.step (Aggkit.BridgeStore.BP.init Driver.Tree.H Driver.Tree.N); return 0
  | ["l1infostore"] => loop inp Driver.L1InfoStore.step (Aggkit.L1InfoStore.LP.init Driver.Tree.H Driver.Tree.N); return 0
  | ["evmger"] => loop inp Driver.L1InfoStore.step (Aggkit.L1InfoStore.LP.init Driver.Tree.H Driver.Tree.N); return 0
  | ["downloader"] => loop inp Driver.Downloader.step (); return 0
  | ["gersync"] => loop inp Driver.LastGER.step {}; return 0
  | ["evmbridge"] => loop inp Driver.EvmBridge.step {}; return 0
  | ["oracle"] => loop inp Driver.Oracle.step {}; return 0
  | ["aggsender"] => loop inp Driver.Aggsender.step {}; return 0
  | ["certcodec"] => loop inp Driver.CertCodec.step (); return 0
  | ["bridgeapi"] => loop inp Driver.BridgeAPI.step {}; return 0
  | ["reorgsync"] => loop inp Driver.ReorgSync.step {}; return 0
  | ["tree"] => loop inp Driver.Tree.step (Aggkit.TM.init Driver.Tree.H Driver.Tree.N); return 0
  | _ => IO.eprintln "usage: aggkit_driver <scenario>"; return 2
