#!/bin/sh
# builds the framework from files on disk only (offline)
set -e
cd "$(dirname "$0")"
export GOFLAGS=-mod=mod GOPROXY=off
[ "$GOTOOLCHAIN" = "local" ] && unset GOTOOLCHAIN
[ "$GOSUMDB" = "off" ] && unset GOSUMDB
mkdir -p .build evidence replays lean/AggkitModel/Generated
if [ -d tools/goextract ]; then (cd tools/goextract && go build -o ../../.build/goextract .); for g in $(cat tools/goextract/GENERATED.list 2>/dev/null); do ./.build/goextract "$g" /repo "lean/AggkitModel/Generated/$g.lean"; done; fi
(cd lean && lake build)
cp /repo/go.sum harness/go.sum
(cd harness && go build -tags verif -o ../.build/harness .)
echo setup-ok
